#!/usr/bin/env python3
"""Self-test of the verifier: applies each mutant patch to a scratch copy of /repo (outside /repo
and /verif, removed afterwards) and checks the verdict of `gocv check`.

Patch header lines (before the diff):
  # property: C18
  # expect: violation <substring of the failing obligation>   |   # expect: silent
"""
import os, subprocess, sys, tempfile, shutil, glob, json

VERIF = os.path.dirname(os.path.dirname(os.path.abspath(__file__)))
REPO = os.environ.get("VERIF_REPO", "/repo")

def run_one(patch):
    prop, expect = None, None
    for ln in open(patch):
        if ln.startswith("# property:"): prop = ln.split(":",1)[1].strip()
        if ln.startswith("# expect:"): expect = ln.split(":",1)[1].strip()
    tmp = tempfile.mkdtemp(prefix="gocv-selftest-")
    try:
        repo = os.path.join(tmp, "repo"); out = os.path.join(tmp, "out")
        subprocess.run(["rsync", "-a", "--exclude", ".git", REPO + "/", repo + "/"], check=True)
        os.makedirs(out)
        r = subprocess.run(["patch", "-p1", "-s", "-d", repo, "-i", patch], capture_output=True, text=True)
        if r.returncode != 0:
            return False, "patch does not apply: " + r.stdout + r.stderr
        env = dict(os.environ, VERIF_REPO=repo, VERIF_OUT=out, VERIF_DIR=VERIF)
        r = subprocess.run([os.path.join(VERIF, "bin", "gocv"), "check", prop], capture_output=True, text=True, env=env, cwd=VERIF)
        viol = [l for l in r.stdout.splitlines() if l.startswith("VIOLATION")]
        detail = [l for l in r.stdout.splitlines() if l.startswith("  obligation")]
        if expect.startswith("silent"):
            ok = r.returncode == 0 and not viol
            return ok, "exit=%d %s" % (r.returncode, " | ".join(detail)[:400])
        want = expect.split(None, 1)[1] if " " in expect else ""
        hit = any(want in d for d in detail)
        confirmed = any("no-failing-input-found" not in v for v in viol)
        ok = r.returncode == 1 and viol and hit
        return ok, "exit=%d violations=%d confirmed_by_replay=%s %s" % (r.returncode, len(viol), confirmed, " | ".join(detail)[:300])
    finally:
        shutil.rmtree(tmp, ignore_errors=True)

def main():
    pats = sys.argv[1:] or sorted(glob.glob(os.path.join(VERIF, "selftest", "mutants", "*", "*.patch")))
    bad = 0
    for p in pats:
        ok, msg = run_one(p)
        print(("PASS " if ok else "FAIL ") + os.path.relpath(p, VERIF) + "  " + msg)
        if not ok: bad += 1
    print("%d mutants, %d wrong verdicts" % (len(pats), bad))
    sys.exit(1 if bad else 0)

main()
