#!/bin/bash
# Must-fail corpus: applies every kept seeded change (seeded/<id>/patch.diff) to /repo in turn, runs
# that property's quick check and expects exit 1 with a VIOLATION line; undoes the change with
# `git apply -R` (never `checkout`, which would also wipe uncommitted hook edits). Refuses to run on a
# dirty /repo. Prints one line per seed; exit 0 iff every seed is detected.
cd "$(dirname "$0")/.."
if [ -n "$(git -C /repo status --porcelain)" ]; then echo "selftest/seeded.sh: /repo has uncommitted changes, refusing"; exit 2; fi
rc=0
# evidence files are rewritten by every run: keep the clean-tree records
keep=$(mktemp -d /tmp/evidence.XXXXXX); cp -a evidence/. $keep/
for d in seeded/*/; do
  dir=$(basename $d); id=${dir%%r[0-9]*}
  [ -f $d/patch.diff ] || continue
  if ! git -C /repo apply --check /verif/$d/patch.diff 2>/dev/null; then echo "seed $dir: patch no longer applies (code moved on) - SKIPPED"; continue; fi
  git -C /repo apply /verif/$d/patch.diff
  out=$(bin/gocv check $id --tier quick 2>&1); code=$?
  git -C /repo apply -R /verif/$d/patch.diff
  n=$(echo "$out" | grep -c "^VIOLATION property=$id ")
  conf=$(echo "$out" | grep "^VIOLATION property=$id " | grep -vc "no-failing-input-found")
  if [ $code -eq 1 ] && [ $n -gt 0 ]; then echo "seed $dir: detected ($n violation line(s), $conf confirmed on the real code)"; else echo "seed $dir: MISSED (exit $code)"; rc=1; fi
done
cp -a $keep/. evidence/; rm -rf $keep
if [ -n "$(git -C /repo status --porcelain)" ]; then echo "selftest/seeded.sh: /repo not clean after the run!"; rc=2; fi
exit $rc
