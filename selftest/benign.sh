#!/bin/bash
# Must-pass corpus: behaviour-preserving changes (renamed locals and parameters, flipped conditions,
# extracted helpers, hoisted invariants, pre-sized maps, reworded messages; produced by sub-agents that
# saw only a property text, each checked by them against the package tests and a differential harness).
# Every patch is applied to /repo in turn and the quick checks of the properties anchored in the touched
# code must exit 0. Undo is `git apply -R`; evidence files are restored afterwards.
cd "$(dirname "$0")/.."
if [ -n "$(git -C /repo status --porcelain)" ]; then echo "selftest/benign.sh: /repo has uncommitted changes, refusing"; exit 2; fi
keep=$(mktemp -d /tmp/evidence.XXXXXX); cp -a evidence/. $keep/
rc=0
for p in selftest/benign/*.patch; do
  b=$(basename $p .patch); pre=${b%%.*}
  props=$(grep "^$pre " selftest/benign/PROPS.txt | cut -d' ' -f2-)
  if ! git -C /repo apply --check /verif/$p 2>/dev/null; then echo "benign $b: patch no longer applies - SKIPPED"; continue; fi
  git -C /repo apply /verif/$p
  for id in $props; do
    out=$(bin/gocv check $id --tier quick 2>&1); code=$?
    if [ $code -eq 0 ]; then echo "benign $b vs $id: quiet"; else echo "benign $b vs $id: FALSE ALARM (exit $code)"; echo "$out" | grep -E "^(VIOLATION|  obligation|  bounded)" | cut -c1-300 | head -4; rc=1; fi
  done
  git -C /repo apply -R /verif/$p
done
cp -a $keep/. evidence/; rm -rf $keep
if [ -n "$(git -C /repo status --porcelain)" ]; then echo "selftest/benign.sh: /repo not clean after the run!"; rc=2; fi
exit $rc
