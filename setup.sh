#!/bin/sh
# Builds the verifier from files on disk only (offline).
set -e
cd "$(dirname "$0")"
export GOFLAGS=-mod=mod GOPROXY=off GOSUMDB=off GOTOOLCHAIN=local
mkdir -p bin work replays evidence
(cd gocv && go build -o ../bin/gocv .)
echo "gocv built"
