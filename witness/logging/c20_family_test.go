package logging

// Witnesses for C20: cores derived with With() must agree with their parent on the ring cursor and
// on the mutex that guards the ring.
// obligation: (*MemCore).Write::post#cursor-agreement-kept => entry written through a derived logger is overwritten
// obligation: (*MemCore).clone::post#mutex-agreement-kept => derived core guards the shared ring with its own mutex

import (
	"fmt"
	"testing"

	"go.uber.org/zap"
	"go.uber.org/zap/zapcore"
)

func TestGocvWitnessC20(t *testing.T) {
	conf := zap.NewProductionConfig()
	ml := NewMemLogger(zapcore.NewConsoleEncoder(conf.EncoderConfig), conf.Level)
	root := ml.core
	child := root.With([]zapcore.Field{zap.String("k", "v")}).(*MemCore)
	if child.r == root.r && child.mu != root.mu {
		fmt.Println("GOCV-FAIL derived core guards the shared ring with its own mutex")
		t.Fail()
	}
	_ = child.Write(zapcore.Entry{Message: "A (through the derived logger)"}, nil)
	_ = root.Write(zapcore.Entry{Message: "B (through the root logger)"}, nil)
	logs := ml.GetLogs()
	var msgs []string
	for _, l := range logs {
		msgs = append(msgs, l.Message)
	}
	if len(logs) != 2 || logs[0].Message[0] != 'B' || logs[1].Message[0] != 'A' {
		fmt.Printf("GOCV-FAIL entry written through a derived logger is overwritten: GetLogs = %q, want [B A]\n", msgs)
		t.Fail()
	}
	fmt.Println("GOCV-DONE")
}
