package statecache

// Witness for C06: what a lookup memoises for the queried block must be the entry it found
// (a tombstone stays a tombstone).
// obligation: (*StateCache).Get::post#memoised-entry-is-the-truth => removed key hits after a lookup at a descendant
// obligation: (*StateCache).Get::post#shape-kept => removed key hits after a lookup at a descendant
// obligation: (*StateCache).Get::post#hit-is-copy-of-truth => removed key hits after a lookup at a descendant

import (
	"fmt"
	"testing"

	"github.com/0chain/common/core/logging"
	"go.uber.org/zap"
)

func init() {
	logging.Logger = zap.NewNop()
}

func TestGocvWitnessC06Tombstone(t *testing.T) {
	sc := NewStateCache()
	// h1 writes k, h2 removes it in a transaction, h3 writes nothing
	bc1 := NewBlockCache(sc, Block{Hash: "h1"})
	bc1.Set("k", String("v1"))
	bc1.Commit()
	bc2 := NewBlockCache(sc, Block{Hash: "h2", PrevHash: "h1"})
	tc := NewTransactionCache(bc2)
	tc.Set("k", String("v2"))
	tc.Remove("k")
	tc.Commit()
	bc2.Commit()
	bc3 := NewBlockCache(sc, Block{Hash: "h3", PrevHash: "h2"})
	bc3.Commit()
	if v, ok := sc.Get("k", "h3"); ok {
		fmt.Printf("GOCV-FAIL removed key hits after a lookup at a descendant: first Get(k,h3) = %v\n", v)
		t.Fail()
	}
	if v, ok := sc.Get("k", "h3"); ok {
		fmt.Printf("GOCV-FAIL removed key hits after a lookup at a descendant: second Get(k,h3) = %v, the key was removed in h2\n", v)
		t.Fail()
	}
	fmt.Println("GOCV-DONE")
}
