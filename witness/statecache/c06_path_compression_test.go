package statecache

// Witness for C06 (a lookup returns the value most recently written along the block's own ancestor
// chain): after a lookup of one key that walks several ancestors, lookups of OTHER keys at the same
// block must still see what the blocks in between wrote or removed. A lookup that rewrites the shared
// parent links (path compression for the key at hand) makes them skip those blocks.
// Adapted from the demonstration of a seeded change.
// obligation: (*StateCache).Get::post#ancestor-links-unchanged => a lookup redirects the ancestor chain of other keys
// obligation: (*StateCache).Get::post#per-key-caches-stay-in-place => a lookup redirects the ancestor chain of other keys

import (
	"fmt"
	"testing"

	"github.com/0chain/common/core/logging"
	"go.uber.org/zap"
)

// w06pcCommit commits one block on top of prev with the given writes and removals.
func w06pcCommit(sc *StateCache, hash, prev string, round int64, sets map[string]string, removes []string) {
	bc, tc := NewBlockTxnCaches(sc, Block{Round: round, Hash: hash, PrevHash: prev})
	for k, v := range sets {
		tc.Set(k, String(v))
	}
	for _, k := range removes {
		tc.Remove(k)
	}
	tc.Commit()
	bc.Commit()
}

func TestGocvWitnessC06PathCompression(t *testing.T) {
	defer fmt.Println("GOCV-DONE")
	logging.Logger = zap.NewNop()

	sc := NewStateCache()

	// chain: B0 <- B1 <- B2 <- B3
	// B1 writes a, b and c; B2 overwrites b and removes c; B3 touches none of them.
	w06pcCommit(sc, "B1", "B0", 1, map[string]string{"a": "a1", "b": "b1", "c": "c1"}, nil)
	w06pcCommit(sc, "B2", "B1", 2, map[string]string{"b": "b2"}, []string{"c"})
	w06pcCommit(sc, "B3", "B2", 3, map[string]string{"d": "d3"}, nil)

	// lookup of a at B3 has to walk B3 -> B2 -> B1
	v, ok := sc.Get("a", "B3")
	if !ok || v != String("a1") {
		w06pcFail(t, "a at B3: got (%v, %v), want (a1, true)", v, ok)
	}

	// b was last written by B2 on B3's chain
	v, ok = NewQueryBlockCache(sc, "B3").Get("b")
	if ok && v != String("b2") {
		w06pcFail(t, "b at B3: got %v, want b2 (written by B2)", v)
	}

	// c was removed by B2 on B3's chain
	v, ok = sc.Get("c", "B3")
	if ok {
		w06pcFail(t, "c at B3: got %v, want a miss (removed by B2)", v)
	}

	// the same through a block / transaction executing on top of B3
	_, tc := NewBlockTxnCaches(sc, Block{Round: 4, Hash: "B4", PrevHash: "B3"})
	v, ok = tc.Get("b")
	if ok && v != String("b2") {
		w06pcFail(t, "b in txn on top of B3: got %v, want b2", v)
	}
	v, ok = tc.Get("c")
	if ok {
		w06pcFail(t, "c in txn on top of B3: got %v, want a miss", v)
	}
}

func w06pcFail(t *testing.T, format string, a ...interface{}) {
	t.Helper()
	fmt.Printf("GOCV-FAIL a lookup redirects the ancestor chain of other keys: %s\n", fmt.Sprintf(format, a...))
	t.Fail()
}
