package statecache

// Witness for C06: a lookup at an older block must not make the cache forget newer committed writes.
// obligation: (*StateCache).Get::post#memoisation-keeps-committed-entries => stale value after lookup at an ancestor

import (
	"fmt"
	"testing"

	"github.com/0chain/common/core/logging"
	"go.uber.org/zap"
)

func init() {
	logging.Logger = zap.NewNop()
}

func TestGocvWitnessC06(t *testing.T) {
	sc := NewStateCache()
	commit := func(hash, prev string, writes map[string]string) {
		bc := NewBlockCache(sc, Block{Hash: hash, PrevHash: prev})
		for k, v := range writes {
			bc.Set(k, String(v))
		}
		bc.Commit()
	}
	commit("A", "", map[string]string{"k": "1"})
	commit("B", "A", nil)
	commit("C", "B", map[string]string{"k": "2"})
	if v, ok := sc.Get("k", "B"); !ok || v.(String) != "1" {
		t.Fatalf("Get(k,B) = %v %v", v, ok)
	}
	v, ok := sc.Get("k", "C")
	if ok && v.(String) != "2" {
		fmt.Printf("GOCV-FAIL stale value after lookup at an ancestor: Get(k,C) = %v, block C wrote 2\n", v)
		t.Fail()
	}
	fmt.Println("GOCV-DONE")
}
