package statecache

// Witness for C07: a value handed out by a lookup must not be retained by the cache.
// obligation: (*StateCache).Get::post#memoised-entry-is-the-truth => caller mutation visible to a later lookup
// obligation: (*StateCache).Get::post#hit-is-copy-of-truth => caller mutation visible to a later lookup

import (
	"fmt"
	"testing"

	"github.com/0chain/common/core/logging"
	"go.uber.org/zap"
)

func init() {
	logging.Logger = zap.NewNop()
}

type witnessVal struct{ items []int }

func (w *witnessVal) Clone() Value {
	return &witnessVal{items: append([]int{}, w.items...)}
}
func (w *witnessVal) CopyFrom(v interface{}) bool { return false }

func TestGocvWitnessC07(t *testing.T) {
	sc := NewStateCache()
	b1 := NewBlockCache(sc, Block{Hash: "b1"})
	b1.Set("k", &witnessVal{items: []int{1, 2, 3}})
	b1.Commit()
	b2 := NewBlockCache(sc, Block{Hash: "b2", PrevHash: "b1"})
	b2.Commit()
	// lookups at b2 walk to b1 (ancestor path) and memoise
	v, ok := sc.Get("k", "b2")
	if !ok {
		t.Fatal("miss")
	}
	v.(*witnessVal).items[0] = 999 // the caller mutates what it was handed
	v2, ok := sc.Get("k", "b2")
	if ok && v2.(*witnessVal).items[0] != 1 {
		fmt.Printf("GOCV-FAIL caller mutation visible to a later lookup: second Get(k,b2) = %v, committed value is [1 2 3]\n", v2.(*witnessVal).items)
		t.Fail()
	}
	fmt.Println("GOCV-DONE")
}
