package statecache

// Witness for C06 / C07 (commit visibility): a transaction that only read a key must not publish
// that value when it commits; the value another transaction committed in between has to survive.
// obligation: (*TransactionCache).Get::frame: => a read is published as a write
// obligation: (*TransactionCache).Get::nil: => a read is published as a write
// obligation: (*TransactionCache).Get::post => a read is published as a write

import (
	"fmt"
	"testing"

	"github.com/0chain/common/core/logging"
	"go.uber.org/zap"
)

func init() {
	logging.Logger = zap.NewNop()
}

type rpVal struct{ s string }

func (w *rpVal) Clone() Value                { return &rpVal{s: w.s} }
func (w *rpVal) CopyFrom(v interface{}) bool { return false }

func TestGocvWitnessReadsPublished(t *testing.T) {
	defer fmt.Println("GOCV-DONE")
	sc := NewStateCache()
	b1 := NewBlockCache(sc, Block{Hash: "b1"})
	t0 := NewTransactionCache(b1)
	t0.Set("k", &rpVal{"old"})
	t0.Set("r", &rpVal{"gone-later"})
	t0.Commit()
	b1.Commit()
	b2 := NewBlockCache(sc, Block{Hash: "b2", PrevHash: "b1"})
	t1, t2 := NewTransactionCache(b2), NewTransactionCache(b2)
	if v, ok := t1.Get("k"); !ok || v.(*rpVal).s != "old" {
		fmt.Printf("GOCV-FAIL a read is published as a write: setup: t1 reads %v %v\n", v, ok)
		t.Fail()
		return
	}
	_, _ = t1.Get("r")
	t1.Set("other", &rpVal{"x"})
	t2.Set("k", &rpVal{"new"})
	t2.Remove("r")
	t2.Commit()
	t1.Commit() // t1 never wrote k or r
	if v, ok := b2.Get("k"); !ok || v.(*rpVal).s != "new" {
		fmt.Printf("GOCV-FAIL a read is published as a write: after t1 (which only read k) commits, the block answers k = %v (found %v); transaction t2 had committed k = new\n", v, ok)
		t.Fail()
	}
	if v, ok := b2.Get("r"); ok {
		fmt.Printf("GOCV-FAIL a read is published as a write: key r removed by the committed transaction t2 is back after t1 (which only read it) commits: %v\n", v)
		t.Fail()
	}
}
