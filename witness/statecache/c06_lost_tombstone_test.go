package statecache

// Witness for C06 / C07 (commit publication): a key removed in a block must miss at that block and in
// its descendants, also when the parent block that wrote the key is committed AFTER the child (a gap
// in the ancestor chain at the time of the child's commits). Every pending entry, tombstones
// included, has to be handed over by TransactionCache.Commit and StateCache.commit.
// obligation: (*TransactionCache).Commit::loop1.latch.entry-handed-over-as-copy => a removal is lost
// obligation: (*TransactionCache).Commit::pre: => a removal is lost
// obligation: (*StateCache).commit::loop1.latch.entry-committed-as-copy => a removal is lost
// obligation: (*StateCache).commit::loop1 => a removal is lost

import (
	"fmt"
	"testing"

	"github.com/0chain/common/core/logging"
	"go.uber.org/zap"
)

func init() {
	logging.Logger = zap.NewNop()
}

type ltVal struct{ s string }

func (w *ltVal) Clone() Value                { return &ltVal{s: w.s} }
func (w *ltVal) CopyFrom(v interface{}) bool { return false }

func TestGocvWitnessLostTombstone(t *testing.T) {
	defer fmt.Println("GOCV-DONE")
	sc := NewStateCache()
	b1 := NewBlockCache(sc, Block{Hash: "b1"})
	t1 := NewTransactionCache(b1)
	t1.Set("k", &ltVal{"written-in-b1"})
	// the child block removes k and is committed before its parent
	b2 := NewBlockCache(sc, Block{Hash: "b2", PrevHash: "b1"})
	t2 := NewTransactionCache(b2)
	t2.Remove("k")
	t2.Commit()
	b2.Commit()
	t1.Commit()
	b1.Commit()
	if v, ok := sc.Get("k", "b2"); ok {
		fmt.Printf("GOCV-FAIL a removal is lost: k was removed in b2; after the late commit of its parent b1 the lookup at b2 returns %v\n", v)
		t.Fail()
	}
	b3 := NewBlockCache(sc, Block{Hash: "b3", PrevHash: "b2"})
	if v, ok := b3.Get("k"); ok {
		fmt.Printf("GOCV-FAIL a removal is lost: k was removed in b2; a child block b3 reads %v\n", v)
		t.Fail()
	}
	if v, ok := NewTransactionCache(b3).Get("k"); ok {
		fmt.Printf("GOCV-FAIL a removal is lost: k was removed in b2; a transaction in the child block b3 reads %v\n", v)
		t.Fail()
	}
	if v, ok := sc.Get("k", "b1"); !ok || v.(*ltVal).s != "written-in-b1" {
		fmt.Printf("GOCV-FAIL a removal is lost: the lookup at b1 itself returns %v %v, want written-in-b1\n", v, ok)
		t.Fail()
	}
}
