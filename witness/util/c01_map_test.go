package util

// Witnesses for C01/C02: the state trie as a map, in the structural corner cases named by failed
// obligations.
// obligation: (*MerklePatriciaTrie).insertAfterPathTraversal::pre:(*MerklePatriciaTrie).insertExtension#canonical-extension => insert at a one-character extension loses the keys below it
// obligation: (*MerklePatriciaTrie).deleteAfterPathTraversal::panic:panic("this should not happen!") => Delete of the empty path panics on an extension root
// obligation: (*MerklePatriciaTrie).deleteAfterPathTraversal::post#absent-is-reported => Delete of an absent path removes another key
// obligation: (*MerklePatriciaTrie).deleteAfterPathTraversal::pre:(*MerklePatriciaTrie).insertNode#canonical-node => deleting a branch value leaves a one-child branch

import (
	"fmt"
	"testing"

	"github.com/0chain/common/core/logging"
	"github.com/0chain/common/core/statecache"
	"go.uber.org/zap"
)

func init() {
	logging.Logger = zap.NewNop()
	logging.N2n = zap.NewNop()
}

func newWitnessTrie() *MerklePatriciaTrie {
	sc := statecache.NewStateCache()
	_, tc := statecache.NewBlockTxnCaches(sc, statecache.Block{})
	return NewMerklePatriciaTrie(NewMemoryNodeDB(), 1, nil, tc)
}

func lookup(t *MerklePatriciaTrie, path string) string {
	d, err := t.GetNodeValueRaw(Path(path))
	if err != nil {
		return "<" + err.Error() + ">"
	}
	return string(d)
}

func guard(name string, f func()) {
	defer func() {
		if r := recover(); r != nil {
			fmt.Printf("GOCV-PANIC %s: %v\n", name, r)
		}
	}()
	f()
}

func TestGocvWitnessC01(t *testing.T) {
	val := func(s string) MPTSerializable { return &SecureSerializableValue{Buffer: []byte(s)} }
	// 1. insert at a one-character extension
	guard("insert at a one-character extension loses the keys below it", func() {
		tr := newWitnessTrie()
		_, _ = tr.Insert(Path("12"), val("a"))
		_, _ = tr.Insert(Path("13"), val("b"))
		_, _ = tr.Insert(Path(""), val("root"))
		if got := lookup(tr, "12"); got != "a" {
			fmt.Printf("GOCV-FAIL insert at a one-character extension loses the keys below it: lookup(12) = %s, want a\n", got)
			t.Fail()
		}
	})
	// 2. Delete("") with an extension root
	guard("Delete of the empty path panics on an extension root", func() {
		tr := newWitnessTrie()
		_, _ = tr.Insert(Path("1234"), val("a"))
		_, _ = tr.Insert(Path("1256"), val("b"))
		_, _ = tr.Delete(Path(""))
	})
	// 3. Delete of an absent path that stops on a leaf with a remaining path
	guard("Delete of an absent path removes another key", func() {
		tr := newWitnessTrie()
		_, _ = tr.Insert(Path("12"), val("a"))
		_, _ = tr.Insert(Path("1345"), val("b"))
		_, err := tr.Delete(Path("13"))
		if got := lookup(tr, "1345"); got != "b" || err == nil {
			fmt.Printf("GOCV-FAIL Delete of an absent path removes another key: Delete(13) err=%v, lookup(1345) = %s, want b and 'value not present'\n", err, got)
			t.Fail()
		}
	})
	// 4. deleting the value of a branch that keeps one child
	guard("deleting a branch value leaves a one-child branch", func() {
		tr := newWitnessTrie()
		_, _ = tr.Insert(Path("12"), val("a"))
		_, _ = tr.Insert(Path("1234"), val("b"))
		r1, _ := tr.Delete(Path("12"))
		tr2 := newWitnessTrie()
		r2, _ := tr2.Insert(Path("1234"), val("b"))
		if string(r1) != string(r2) {
			fmt.Printf("GOCV-FAIL deleting a branch value leaves a one-child branch: root %x differs from the root %x of the trie built directly with the same content\n", r1, r2)
			t.Fail()
		}
	})
	fmt.Println("GOCV-DONE")
}
