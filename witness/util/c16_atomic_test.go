package util

// Witness for C16 (atomicity of traversals): one Iterate / IterateFrom runs concurrently with one
// Insert; the iteration handler forces the interleaving (adapted from an independently written demo).
// Whatever the schedule, the traversal must report no missing node and see exactly the content before
// or after the Insert.
// obligation: (*MerklePatriciaTrie).Iterate::holds: => traversal is not atomic
// obligation: (*MerklePatriciaTrie).Iterate::guard: => traversal is not atomic
// obligation: (*MerklePatriciaTrie).IterateFrom::holds: => traversal is not atomic

import (
	"context"
	"fmt"
	"testing"
	"time"

	"github.com/0chain/common/core/logging"
	"github.com/0chain/common/core/statecache"
	"go.uber.org/zap"
)

// TestSeededDemo runs one Iterate concurrently with one Insert on the same
// trie. The iteration handler is used to force the interleaving: when the root
// node is visited the writer is released, and the handler gives it a chance to
// complete before the traversal goes on.
//
// Whatever the schedule, Iterate must behave as if it ran atomically either
// before or after the Insert: it returns no error, never reports a missing
// node, and visits exactly the content of the trie before the Insert or
// exactly the content after it.
func TestGocvWitnessC16Atomic(t *testing.T) {
	for _, useFrom := range []bool{false, true} {
		witnessC16Atomic(t, useFrom)
	}
}

func witnessC16Atomic(t *testing.T, useFrom bool) {
	logging.Logger = zap.NewNop()

	sc := statecache.NewStateCache()
	_, tc := statecache.NewBlockTxnCaches(sc, statecache.Block{})
	mpt := NewMerklePatriciaTrie(NewMemoryNodeDB(), 1, nil, tc)

	val := func() *SecureSerializableValue {
		return &SecureSerializableValue{Buffer: []byte("v")}
	}

	before := []string{"1234", "1256", "2345", "2367", "3456"}
	for _, k := range before {
		if _, err := mpt.Insert(Path(k), val()); err != nil {
			t.Fatalf("setup insert %s: %v", k, err)
		}
	}
	const newKey = "1278"
	after := append(append([]string{}, before...), newKey)

	start := make(chan struct{})
	done := make(chan error, 1)
	go func() {
		<-start
		_, err := mpt.Insert(Path(newKey), val())
		done <- err
	}()

	var (
		released    bool
		insertErr   error
		insertEnded bool
		missing     []string
		leaves      = map[string]int{}
	)
	handler := func(ctx context.Context, path Path, key Key, node Node) error {
		if !released {
			// first visited node (the root): let the writer go and give it
			// time to finish, if it can, before the traversal continues
			released = true
			close(start)
			select {
			case insertErr = <-done:
				insertEnded = true
			case <-time.After(500 * time.Millisecond):
			}
		}
		if node == nil {
			missing = append(missing, fmt.Sprintf("path=%s key=%s", string(path), ToHex(key)))
			return nil
		}
		if ln, ok := node.(*LeafNode); ok {
			leaves[string(path)+string(ln.Path)]++
		}
		return nil
	}

	var iterErr error
	if useFrom {
		iterErr = mpt.IterateFrom(context.Background(), mpt.GetRoot(), handler, NodeTypeLeafNode|NodeTypeFullNode|NodeTypeExtensionNode)
	} else {
		iterErr = mpt.Iterate(context.Background(), handler, NodeTypeLeafNode|NodeTypeFullNode|NodeTypeExtensionNode)
	}

	if !insertEnded {
		select {
		case insertErr = <-done:
		case <-time.After(10 * time.Second):
			t.Fatal("concurrent Insert did not return")
		}
	}
	if insertErr != nil {
		t.Fatalf("concurrent Insert failed: %v", insertErr)
	}
	t.Logf("insert completed while Iterate was in progress: %v", insertEnded)

	if iterErr != nil {
		fmt.Printf("GOCV-FAIL traversal is not atomic (IterateFrom=%v): returned %v\n", useFrom, iterErr)
		t.Fail()
	}
	if len(missing) != 0 {
		fmt.Printf("GOCV-FAIL traversal is not atomic (IterateFrom=%v): ran into missing nodes %v\n", useFrom, missing)
		t.Fail()
	}

	sameSet := func(want []string) bool {
		if len(leaves) != len(want) {
			return false
		}
		for _, k := range want {
			if leaves[k] != 1 {
				return false
			}
		}
		return true
	}
	if !sameSet(before) && !sameSet(after) {
		fmt.Printf("GOCV-FAIL traversal is not atomic (IterateFrom=%v): saw neither the content before nor after the Insert: %v\n", useFrom, leaves)
		t.Fail()
	}

	// the completed update must be there afterwards and the trie must be sane
	if _, err := mpt.GetNodeValueRaw(Path(newKey)); err != nil {
		t.Errorf("inserted key not found afterwards: %v", err)
	}
	if err := IsMPTValid(mpt); err != nil {
		t.Errorf("trie not valid afterwards: %v", err)
	}
}
