package util

// Witness for C17 / C14: a trie with nodes missing from its store is repaired with MergeDB from a
// donor store holding the removed nodes, at a trie version different from the version the nodes
// were created at. Afterwards the trie must read its full content under the same root, and the
// donor's nodes must be unchanged (still stored under their own hashes).
// obligation: (*MerklePatriciaTrie).MergeDB$1::post#donor-node-keeps-its-key => repair at another version
// obligation: (*MerklePatriciaTrie).MergeDB$1::post#donor-node-is-not-modified => donor store modified

import (
	"context"
	"fmt"
	"testing"

	"github.com/0chain/common/core/logging"
	"github.com/0chain/common/core/statecache"
	"go.uber.org/zap"
)

func init() {
	logging.Logger = zap.NewNop()
	logging.N2n = zap.NewNop()
}

func TestGocvWitnessC17(t *testing.T) {
	defer fmt.Println("GOCV-DONE")
	keys := []string{"0a01", "0a02", "0b01", "1c", "1d0203"}
	full := NewMemoryNodeDB()
	src := NewMerklePatriciaTrie(full, 1, nil, statecache.NewEmpty())
	for i, k := range keys {
		if _, err := src.Insert(Path(k), &SecureSerializableValue{Buffer: []byte{byte('a' + i)}}); err != nil {
			t.Fatal(err)
		}
	}
	root := src.GetRoot()
	for _, version := range []Sequence{1, 7} {
		// the damaged store keeps only the root node; the donor holds everything else
		damaged, donor := NewMemoryNodeDB(), NewMemoryNodeDB()
		_ = full.Iterate(context.Background(), func(ctx context.Context, key Key, node Node) error {
			if string(key) == string(root) {
				return damaged.PutNode(key, node)
			}
			return donor.PutNode(key, node)
		})
		before := map[string]string{}
		_ = donor.Iterate(context.Background(), func(ctx context.Context, key Key, node Node) error {
			before[string(key)] = string(node.Encode())
			return nil
		})
		tr := NewMerklePatriciaTrie(damaged, version, root, statecache.NewEmpty())
		if missing, _ := tr.HasMissingNodes(context.Background()); !missing {
			fmt.Printf("GOCV-FAIL repair at another version: damaged trie does not report missing nodes (version %d)\n", version)
			t.Fail()
			return
		}
		if err := tr.MergeDB(donor, root, nil); err != nil {
			t.Fatal(err)
		}
		bad := 0
		for i, k := range keys {
			v, err := tr.GetNodeValueRaw(Path(k))
			if err != nil || len(v) == 0 || v[len(v)-1] != byte('a'+i) {
				bad++
			}
		}
		if bad > 0 || string(tr.GetRoot()) != string(root) {
			fmt.Printf("GOCV-FAIL repair at another version: nodes created at version 1, trie at version %d: after MergeDB %d of %d keys do not read back\n", version, bad, len(keys))
			t.Fail()
		}
		changed := 0
		_ = donor.Iterate(context.Background(), func(ctx context.Context, key Key, node Node) error {
			if before[string(key)] != string(node.Encode()) || string(node.GetHashBytes()) != string(key) {
				changed++
			}
			return nil
		})
		if changed > 0 {
			fmt.Printf("GOCV-FAIL donor store modified: trie at version %d: %d of %d donor nodes changed or no longer hash to their key after MergeDB\n", version, changed, len(before))
			t.Fail()
		}
	}
}
