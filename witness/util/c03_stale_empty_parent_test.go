package util

// Witness for C03 (a stale child is rejected without a trace), in the corner where the children
// were opened over a still-empty parent: their start root is nil. After the first child is merged
// the parent has moved on, so the second child's merge has to be rejected and must leave the
// parent's root, content and pending changes as they were.
// obligation: (*MerklePatriciaTrie).mergeChanges::post#stale-merge-changes-nothing => a stale child opened over an empty parent is merged
// obligation: (*MerklePatriciaTrie).mergeChanges::post#merging-the-same-root-changes-nothing => a stale child opened over an empty parent is merged

import (
	"bytes"
	"fmt"
	"testing"

	"github.com/0chain/common/core/logging"
	"github.com/0chain/common/core/statecache"
	"go.uber.org/zap"
)

func init() {
	logging.Logger = zap.NewNop()
	logging.N2n = zap.NewNop()
}

func TestGocvWitnessC03StaleEmptyParent(t *testing.T) {
	defer fmt.Println("GOCV-DONE")
	for _, base := range [][]string{nil, {"5678"}} {
		parent := NewMerklePatriciaTrie(NewLevelNodeDB(NewMemoryNodeDB(), NewMemoryNodeDB(), false), 1, nil, statecache.NewEmpty())
		for _, p := range base {
			if _, err := parent.Insert(Path(p), &SecureSerializableValue{Buffer: []byte("base")}); err != nil {
				t.Fatal(err)
			}
		}
		open := func() *MerklePatriciaTrie {
			return NewMerklePatriciaTrie(NewLevelNodeDB(NewMemoryNodeDB(), parent.GetNodeDB(), false), parent.GetVersion(), parent.GetRoot(), statecache.NewEmpty())
		}
		a, b := open(), open()
		_, _ = a.Insert(Path("12345678"), &SecureSerializableValue{Buffer: []byte("from-A")})
		_, _ = a.Insert(Path("12cd5678"), &SecureSerializableValue{Buffer: []byte("from-A2")})
		_, _ = b.Insert(Path("ab345678"), &SecureSerializableValue{Buffer: []byte("from-B")})
		if err := parent.MergeMPTChanges(a); err != nil {
			t.Fatal(err)
		}
		root := append([]byte{}, parent.GetRoot()...)
		changes := parent.GetChangeCount()
		err := parent.MergeMPTChanges(b)
		if err == nil {
			fmt.Printf("GOCV-FAIL a stale child opened over an empty parent is merged: base %v: the parent moved on after child A was merged, yet the merge of child B (opened before) returned no error\n", base)
			t.Fail()
		}
		if !bytes.Equal(parent.GetRoot(), root) || parent.GetChangeCount() != changes {
			fmt.Printf("GOCV-FAIL a stale child opened over an empty parent is merged: base %v: the rejected merge changed the parent (root changed: %v, pending changes %d -> %d)\n", base, !bytes.Equal(parent.GetRoot(), root), changes, parent.GetChangeCount())
			t.Fail()
		}
		if v, err := parent.GetNodeValueRaw(Path("12345678")); err != nil || !bytes.HasSuffix(v, []byte("from-A")) {
			fmt.Printf("GOCV-FAIL a stale child opened over an empty parent is merged: base %v: the parent lost the value merged from child A (%q, %v)\n", base, v, err)
			t.Fail()
		}
	}
}
