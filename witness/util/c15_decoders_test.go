package util

// Witness tests for C15 obligations of the state-trie node decoders.
// obligation: CreateNode::panic:panic(fmt.Sprintf("unknown node type => CreateNode(unknown type byte)
// obligation: (*LeafNode).Decode::slice:buf[:idx]#2 => CreateNode(leaf without second separator)
// obligation: (*FullNode).Decode::pre:encoding/hex.Decode#dstlen => CreateNode(full node with 66-char child)

import (
	"bytes"
	"fmt"
	"strings"
	"testing"

	"github.com/0chain/common/core/logging"
	"go.uber.org/zap"
)

func init() {
	logging.Logger = zap.NewNop()
	logging.N2n = zap.NewNop()
}

func noPanicC15(t *testing.T, name string, f func()) {
	defer func() {
		if r := recover(); r != nil {
			fmt.Printf("GOCV-PANIC %s: %v\n", name, r)
			t.Errorf("%s panicked: %v", name, r)
		}
	}()
	f()
}

func TestGocvWitnessC15(t *testing.T) {
	hdr := make([]byte, 16) // version, origin
	noPanicC15(t, "CreateNode(unknown type byte)", func() { _, _ = CreateNode(bytes.NewBuffer(append([]byte{16}, hdr...))) })
	noPanicC15(t, "CreateNode(unknown type byte)", func() { _, _ = CreateNode(bytes.NewBuffer(append([]byte{3}, hdr...))) })
	leaf := append(append([]byte{NodeTypeLeafNode}, hdr...), []byte("12:34")...)
	noPanicC15(t, "CreateNode(leaf without second separator)", func() { _, _ = CreateNode(bytes.NewBuffer(leaf)) })
	full := append(append([]byte{NodeTypeFullNode}, hdr...), []byte(strings.Repeat("ab", 33)+":"+strings.Repeat(":", 15))...)
	noPanicC15(t, "CreateNode(full node with 66-char child)", func() { _, _ = CreateNode(bytes.NewBuffer(full)) })
	fmt.Println("GOCV-DONE")
}
