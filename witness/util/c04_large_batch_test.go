package util

// Witness for C04 / C14 (the batch a save hands to the store pairs every node with its own hash):
// one round changes several hundred nodes; after SaveChanges every node reachable from the saved
// root must be present in the persistent store under its own hash, and every value readable from a
// trie opened on that store alone.
// obligation: (*ChangeCollector).UpdateChanges:: => a large save stores nodes under other nodes' keys

import (
	"bytes"
	"context"
	"fmt"
	"testing"

	"github.com/0chain/common/core/logging"
	"github.com/0chain/common/core/statecache"
	"go.uber.org/zap"
)

func init() {
	logging.Logger = zap.NewNop()
	logging.N2n = zap.NewNop()
}

func TestGocvWitnessC04LargeBatch(t *testing.T) {
	defer fmt.Println("GOCV-DONE")
	dir := t.TempDir()
	pndb, err := NewPNodeDB(dir+"/state", dir+"/log")
	if err != nil {
		t.Fatal(err)
	}
	tr := NewMerklePatriciaTrie(NewLevelNodeDB(NewMemoryNodeDB(), pndb, false), 1, nil, statecache.NewEmpty())
	const n = 700
	for i := 0; i < n; i++ {
		if _, err := tr.Insert(Path(fmt.Sprintf("%06x", i*7919)), &SecureSerializableValue{Buffer: []byte(fmt.Sprintf("v%d", i))}); err != nil {
			t.Fatal(err)
		}
	}
	if err := tr.SaveChanges(context.Background(), pndb, false); err != nil {
		t.Fatal(err)
	}
	re := NewMerklePatriciaTrie(pndb, 1, tr.GetRoot(), statecache.NewEmpty())
	wrong, missing, total := 0, 0, 0
	_ = re.Iterate(context.Background(), func(ctx context.Context, path Path, key Key, node Node) error {
		total++
		if node == nil {
			missing++
			return nil
		}
		if key != nil && !bytes.Equal(node.GetHashBytes(), key) {
			wrong++
		}
		return nil
	}, NodeTypeLeafNode|NodeTypeFullNode|NodeTypeExtensionNode)
	unreadable := 0
	for i := 0; i < n; i++ {
		v, err := re.GetNodeValueRaw(Path(fmt.Sprintf("%06x", i*7919)))
		if err != nil || !bytes.HasSuffix(v, []byte(fmt.Sprintf("v%d", i))) {
			unreadable++
		}
	}
	if wrong > 0 || missing > 0 || unreadable > 0 {
		fmt.Printf("GOCV-FAIL a large save stores nodes under other nodes' keys: %d changed nodes saved in one round; from the saved root %d node(s) are stored with another node's content, %d are missing, %d of %d values do not read back\n", tr.GetChangeCount(), wrong, missing, unreadable, n)
		t.Fail()
	}
}
