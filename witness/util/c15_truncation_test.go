package util

// Witness for C15: every prefix of a real node encoding (all four node kinds) is fed to CreateNode;
// a truncated encoding must be rejected or decoded, never make the decoder panic.
// obligation: CreateNode:: => CreateNode panics on a truncated encoding
// obligation: (*OriginTracker). => CreateNode panics on a truncated encoding

import (
	"bytes"
	"fmt"
	"testing"

	"github.com/0chain/common/core/logging"
	"go.uber.org/zap"
)

func init() {
	logging.Logger = zap.NewNop()
	logging.N2n = zap.NewNop()
}

func TestGocvWitnessC15Truncation(t *testing.T) {
	defer fmt.Println("GOCV-DONE")
	val := &SecureSerializableValue{Buffer: []byte("some:value\x00\xff")}
	fn := NewFullNode(val)
	fn.SetOrigin(7)
	fn.Children[3] = bytes.Repeat([]byte{0x3a}, 32)
	fn.Children[15] = bytes.Repeat([]byte{0x01}, 32)
	en := NewExtensionNode(Path("3a3a"), bytes.Repeat([]byte{0x3a}, 32))
	en.SetOrigin(7)
	vn := NewValueNode()
	vn.SetValue(val)
	vn.SetOrigin(7)
	nodes := []Node{NewLeafNode(Path("0a"), Path("1234"), 7, val), fn, en, vn}
	for _, n := range nodes {
		enc := n.Encode()
		for cut := 0; cut < len(enc); cut++ {
			func() {
				defer func() {
					if r := recover(); r != nil {
						fmt.Printf("GOCV-PANIC CreateNode panics on a truncated encoding: %T cut to %d of %d bytes: %v\n", n, cut, len(enc), r)
						t.Fail()
					}
				}()
				if dn, err := CreateNode(bytes.NewReader(enc[:cut])); err == nil && dn != nil {
					_ = dn.Encode()
					_ = dn.GetHashBytes()
				}
			}()
			if t.Failed() {
				return
			}
		}
	}
}
