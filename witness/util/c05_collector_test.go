package util

// Witness for the change-collector contracts (C04 / C05): every sequence of up to 4 AddChange /
// DeleteChange calls over a small universe of nodes is run on a real ChangeCollector and the
// postconditions of the contract are evaluated on the observed maps after every call.
// obligation: (*ChangeCollector).AddChange::post#recreated-hash-leaves-deletes => recreated-hash-leaves-deletes
// obligation: (*ChangeCollector).AddChange::post#other-keys-untouched => add.other-keys-untouched
// obligation: (*ChangeCollector).AddChange::post#new-node-registered => new-node-registered
// obligation: (*ChangeCollector).AddChange::post#replacement-registered-and-old-marked-dead => replacement-registered-and-old-marked-dead
// obligation: (*ChangeCollector).AddChange::post#intermediate-node-forgotten => intermediate-node-forgotten
// obligation: (*ChangeCollector).AddChange::post#changes-and-deletes-stay-disjoint => add.changes-and-deletes-stay-disjoint
// obligation: (*ChangeCollector).DeleteChange::post#pending-node-just-forgotten => pending-node-just-forgotten
// obligation: (*ChangeCollector).DeleteChange::post#stored-node-marked-dead => stored-node-marked-dead
// obligation: (*ChangeCollector).DeleteChange::post#other-keys-untouched => del.other-keys-untouched
// obligation: (*ChangeCollector).DeleteChange::post#changes-and-deletes-stay-disjoint => del.changes-and-deletes-stay-disjoint

import (
	"fmt"
	"testing"

	"github.com/0chain/common/core/logging"
	"go.uber.org/zap"
)

func init() {
	logging.Logger = zap.NewNop()
	logging.N2n = zap.NewNop()
}

type c05op struct {
	del      bool
	old, new int // indices into the universe, -1 = nil
}

func c05node(i int) Node {
	ln := NewLeafNode(Path(""), Path(fmt.Sprintf("%02x", i)), 1, &SecureSerializableValue{Buffer: []byte{byte('a' + i)}})
	return ln
}

func TestGocvWitnessC05(t *testing.T) {
	const U = 3
	var ops []c05op
	for i := 0; i < U; i++ {
		ops = append(ops, c05op{true, i, -1}, c05op{false, -1, i})
		for j := 0; j < U; j++ {
			if i != j {
				ops = append(ops, c05op{false, i, j})
			}
		}
	}
	reported := map[string]bool{}
	fail := func(label string, seq []c05op, msg string) {
		if !reported[label] {
			reported[label] = true
			fmt.Printf("GOCV-FAIL %s: after %v: %s\n", label, seq, msg)
			t.Fail()
		}
	}
	type snap struct {
		ch map[string]NodeChange
		de map[string]Node
	}
	take := func(cc *ChangeCollector) snap {
		s := snap{map[string]NodeChange{}, map[string]Node{}}
		for k, v := range cc.Changes {
			s.ch[k] = *v
		}
		for k, v := range cc.Deletes {
			s.de[k] = v
		}
		return s
	}
	disj := func(s snap) bool {
		for k := range s.ch {
			if _, ok := s.de[k]; ok {
				return false
			}
		}
		return true
	}
	var run func(seq []c05op)
	run = func(seq []c05op) {
		if len(seq) > 0 {
			cc := NewChangeCollector(nil).(*ChangeCollector)
			for n, o := range seq {
				// fresh objects per call: equal content, equal hash, different identity
				var oldN, newN Node
				if o.old >= 0 {
					oldN = c05node(o.old)
				}
				if o.new >= 0 {
					newN = c05node(o.new)
				}
				pre := take(cc)
				cur := seq[:n+1]
				if o.del {
					cc.DeleteChange(oldN)
					post := take(cc)
					oh := oldN.GetHash()
					_, wasPending := pre.ch[oh]
					if wasPending {
						if _, still := post.ch[oh]; still || len(post.de) != len(pre.de) {
							fail("pending-node-just-forgotten", cur, "a pending node was deleted but is still a change, or the dead set changed")
						}
					} else {
						if d, ok := post.de[oh]; !ok || d != oldN || len(post.ch) != len(pre.ch) {
							fail("stored-node-marked-dead", cur, "a stored node was deleted but is not recorded dead")
						}
					}
					for k := range pre.ch {
						if _, ok := post.ch[k]; k != oh && !ok {
							fail("del.other-keys-untouched", cur, "another change disappeared")
						}
					}
					for k := range pre.de {
						if _, ok := post.de[k]; k != oh && !ok {
							fail("del.other-keys-untouched", cur, "another dead record disappeared")
						}
					}
					if disj(pre) && !disj(post) {
						fail("del.changes-and-deletes-stay-disjoint", cur, "a hash is both a change and dead")
					}
					continue
				}
				cc.AddChange(oldN, newN)
				post := take(cc)
				nh := newN.GetHash()
				oh := ""
				if oldN != nil {
					oh = oldN.GetHash()
				}
				if oldN == nil || oh != nh {
					if _, dead := post.de[nh]; dead {
						fail("recreated-hash-leaves-deletes", cur, "the (re)created node "+nh[:8]+" is still recorded dead")
					}
				}
				for k, v := range pre.ch {
					if k == nh || k == oh {
						continue
					}
					if pv, ok := post.ch[k]; !ok || pv != v {
						fail("add.other-keys-untouched", cur, "another change was modified")
					}
				}
				for k, v := range pre.de {
					if k == nh || k == oh {
						continue
					}
					if pv, ok := post.de[k]; !ok || pv != v {
						fail("add.other-keys-untouched", cur, "another dead record was modified")
					}
				}
				if oldN == nil {
					if c, ok := post.ch[nh]; !ok || c.New != newN || c.Old != nil {
						fail("new-node-registered", cur, "the new node "+nh[:8]+" is not registered as a change")
					}
				} else if oh != nh {
					if _, pending := pre.ch[oh]; !pending {
						c, ok := post.ch[nh]
						d, dok := post.de[oh]
						if !ok || c.New != newN || c.Old != oldN || !dok || d != oldN {
							fail("replacement-registered-and-old-marked-dead", cur, "replacing a stored node did not register the new node and mark the old one dead")
						}
					} else if _, still := post.ch[oh]; still {
						fail("intermediate-node-forgotten", cur, "the replaced pending node is still a change")
					}
				}
				if disj(pre) && (oldN == nil || oh != nh) && !disj(post) {
					fail("add.changes-and-deletes-stay-disjoint", cur, "a hash is both a change and dead")
				}
			}
		}
		if len(seq) == 4 {
			return
		}
		for _, o := range ops {
			run(append(append([]c05op{}, seq...), o))
		}
	}
	run(nil)
	fmt.Println("GOCV-DONE")
}
