package util

// Witness for C14 (every stored node is addressed by its own hash): the caller formats each path into
// one scratch buffer that it reuses for the next key and finally wipes. After Insert returns the
// buffer is the caller's again; what the trie wrote to its node store must not depend on it. An
// extension node that keeps the caller's slice as its Path changes content (and so no longer hashes
// to its key) when the buffer is overwritten.
// Found on the pinned tree by a seeding agent as a side observation; repaired (see known-findings.txt).
// obligation: (*ExtensionNode).CloneNode::post#owns-its-path => a stored node aliases the caller's path buffer

import (
	"bytes"
	"context"
	"encoding/binary"
	"encoding/hex"
	"fmt"
	"testing"

	"github.com/0chain/common/core/logging"
	"github.com/0chain/common/core/statecache"
	"go.uber.org/zap"
)

// w14aCheckStore walks every node of a node store and checks that it is
// stored under the hash of its own content and that it survives an
// encode/decode round trip with the same hash and the same encoding.
func w14aCheckStore(ctx context.Context, ndb NodeDB) []string {
	var bad []string
	_ = ndb.Iterate(ctx, func(_ context.Context, key Key, node Node) error {
		if !bytes.Equal(key, node.GetHashBytes()) {
			bad = append(bad, fmt.Sprintf("%T stored under %s re-computes to %s",
				node, ToHex(key), node.GetHash()))
		}
		enc := node.Encode()
		dec, err := CreateNode(bytes.NewReader(enc))
		if err != nil {
			bad = append(bad, fmt.Sprintf("%T %s does not decode: %v", node, ToHex(key), err))
			return nil
		}
		if !bytes.Equal(dec.GetHashBytes(), node.GetHashBytes()) || !bytes.Equal(dec.Encode(), enc) {
			bad = append(bad, fmt.Sprintf("%T %s does not round-trip", node, ToHex(key)))
		}
		return nil
	})
	return bad
}

// w14aReadBack opens a fresh trie (fresh cache) on the store at the given
// root and checks that every expected path is still readable with its value.
func w14aReadBack(ndb NodeDB, version Sequence, root Key, want map[string]string) []string {
	var bad []string
	fresh := NewMerklePatriciaTrie(ndb, version, root, statecache.NewEmpty())
	for p, v := range want {
		got, err := fresh.GetNodeValueRaw(Path(p))
		if err != nil {
			bad = append(bad, fmt.Sprintf("path %s: %v", p, err))
			continue
		}
		if string(got) != v {
			bad = append(bad, fmt.Sprintf("path %s: got %q want %q", p, got, v))
		}
	}
	return bad
}

// The caller derives each 8-nibble path from a numeric id and, as callers that
// insert many keys commonly do, formats it into one scratch buffer that is
// reused for the next id. After Insert returns, the buffer belongs to the
// caller again; what the trie wrote to its node store must not depend on it.
func TestGocvWitnessC14PathBufferAlias(t *testing.T) {
	defer fmt.Println("GOCV-DONE")
	logging.Logger = zap.NewNop()
	ctx := context.Background()

	ids := []uint32{0x12345678, 0x1234ab00, 0x9f00c0de, 0x12345699}

	stores := map[string]func() NodeDB{
		"memory": func() NodeDB { return NewMemoryNodeDB() },
		"level": func() NodeDB {
			return NewLevelNodeDB(NewMemoryNodeDB(), NewMemoryNodeDB(), false)
		},
	}

	for name, mk := range stores {
		t.Run(name, func(t *testing.T) {
			ndb := mk()
			const version = Sequence(7)
			mpt := NewMerklePatriciaTrie(ndb, version, nil, statecache.NewEmpty())

			want := map[string]string{}
			var raw [4]byte
			scratch := make([]byte, 8) // the caller's reusable path buffer
			for i, id := range ids {
				binary.BigEndian.PutUint32(raw[:], id)
				hex.Encode(scratch, raw[:])
				val := fmt.Sprintf("value:%d:\x00\xff", i)
				if _, err := mpt.Insert(Path(scratch), &SecureSerializableValue{Buffer: []byte(val)}); err != nil {
					w14aFail(t, "insert %x: %v", id, err)
				}
				want[string(scratch)] = val

				for _, msg := range w14aCheckStore(ctx, ndb) {
					w14aFail(t, "after insert #%d (%x): %s", i, id, msg)
				}
				for _, msg := range w14aReadBack(ndb, version, mpt.GetRoot(), want) {
					w14aFail(t, "after insert #%d (%x): read back from root %s: %s", i, id, ToHex(mpt.GetRoot()), msg)
				}
			}

			// the caller finally wipes its buffer
			for i := range scratch {
				scratch[i] = '0'
			}
			for _, msg := range w14aCheckStore(ctx, ndb) {
				w14aFail(t, "after wiping the caller's buffer: %s", msg)
			}
			for _, msg := range w14aReadBack(ndb, version, mpt.GetRoot(), want) {
				w14aFail(t, "after wiping the caller's buffer: read back: %s", msg)
			}
		})
	}
}

func w14aFail(t *testing.T, format string, a ...interface{}) {
	t.Helper()
	fmt.Printf("GOCV-FAIL a stored node aliases the caller's path buffer: %s\n", fmt.Sprintf(format, a...))
	t.Fail()
}
