package util

// Witness (bounded: every leaf count 1..96, every leaf) for the C19 obligations on the Merkle tree:
// builds real trees and checks that every path verifies, by index and by lookup, that a foreign leaf
// hash does not verify with the same path, and that an exported tree loads back with the same root.
// obligation: (*MerkleTree).GetPathByIndex:: => merkle path property
// obligation: (*MerkleTree).ComputeTree:: => merkle path property
// obligation: VerifyMerklePath:: => merkle path property
// obligation: (*MerkleTree).computeSize:: => merkle path property
// obligation: (*MerkleTree).GetPath:: => merkle path property
// obligation: (*MerkleTree).GetLeafIndex:: => merkle path property
// obligation: (*MerkleTree).SetTree:: => merkle path property
// obligation: (*MerkleTree).VerifyPath:: => merkle path property

import (
	"fmt"
	"testing"
)

type witnessLeaf string

func (w witnessLeaf) GetHash() string      { return Hash(string(w)) }
func (w witnessLeaf) GetHashBytes() []byte { return []byte(Hash(string(w))) }

func TestGocvWitnessC19(t *testing.T) {
	defer func() {
		if r := recover(); r != nil {
			fmt.Printf("GOCV-PANIC merkle path property: %v\n", r)
			t.Fail()
		}
	}()
	bad := 0
	report := func(format string, a ...interface{}) {
		if bad < 5 {
			fmt.Printf("GOCV-FAIL merkle path property: "+format+"\n", a...)
		}
		bad++
	}
	for n := 1; n <= 96; n++ {
		leaves := make([]Hashable, n)
		for i := range leaves {
			leaves[i] = witnessLeaf(fmt.Sprintf("leaf-%d-%d", n, i))
		}
		var mt MerkleTree
		mt.ComputeTree(leaves)
		root := mt.GetRoot()
		var mt2 MerkleTree
		if err := mt2.SetTree(n, mt.GetTree()); err != nil || mt2.GetRoot() != root {
			report("n=%d: exported tree does not load back with the same root (%v)", n, err)
		}
		for i := 0; i < n; i++ {
			p := mt.GetPathByIndex(i)
			if !VerifyMerklePath(leaves[i].GetHash(), p, root) {
				report("n=%d leaf=%d: path by index does not verify", n, i)
			}
			if !mt.VerifyPath(leaves[i], mt.GetPath(leaves[i])) {
				report("n=%d leaf=%d: path by lookup does not verify", n, i)
			}
			if VerifyMerklePath(Hash("some other leaf"), p, root) {
				report("n=%d leaf=%d: path verifies for a different leaf hash", n, i)
			}
			p2 := mt2.GetPathByIndex(i)
			if len(p2.Nodes) != len(p.Nodes) {
				report("n=%d leaf=%d: loaded tree gives a different path", n, i)
			}
		}
	}
	if bad > 0 {
		t.Fail()
	}
	fmt.Println("GOCV-DONE")
}
