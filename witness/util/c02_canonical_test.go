package util

// Witness for the C02 canonical-shape obligations: searches (bounded) for an operation history whose
// root differs from the root of a trie built directly from the same final content.
// obligation: (*MerklePatriciaTrie).deleteAtNode::pre:(*MerklePatriciaTrie).insertNode#canonical-node => root depends on history
// obligation: (*MerklePatriciaTrie).insertAtNode::pre:(*MerklePatriciaTrie).insertNode#canonical-node => root depends on history
// obligation: (*MerklePatriciaTrie).insertAtNode::pre:(*MerklePatriciaTrie).insertExtension#canonical-extension => root depends on history
// obligation: (*MerklePatriciaTrie).insertAfterPathTraversal::pre:(*MerklePatriciaTrie).insertNode#canonical-node => root depends on history
// obligation: (*MerklePatriciaTrie).deleteAtNode::post#returns-canonical-node => root depends on history

import (
	"fmt"
	"sort"
	"testing"

	"github.com/0chain/common/core/logging"
	"github.com/0chain/common/core/statecache"
	"go.uber.org/zap"
)

func init() {
	logging.Logger = zap.NewNop()
	logging.N2n = zap.NewNop()
}

func c02trie() *MerklePatriciaTrie {
	sc := statecache.NewStateCache()
	_, tc := statecache.NewBlockTxnCaches(sc, statecache.Block{})
	return NewMerklePatriciaTrie(NewMemoryNodeDB(), 1, nil, tc)
}

func TestGocvWitnessC02(t *testing.T) {
	paths := []string{"3456", "3457", "9", "a34567", "a34568", "a9", "b0", "12", "1234", "1256", "1", "1abc", "2def"}
	type op struct {
		del  bool
		path string
	}
	var ops []op
	for _, p := range paths {
		ops = append(ops, op{false, p}, op{true, p})
	}
	fails := 0
	var run func(seq []op, live map[string]bool)
	run = func(seq []op, live map[string]bool) {
		if len(seq) > 0 && fails < 3 {
			func() {
				defer func() {
					if r := recover(); r != nil {
						fmt.Printf("GOCV-PANIC root depends on history: %v after %v\n", r, seq)
						fails++
					}
				}()
				tr := c02trie()
				for _, o := range seq {
					if o.del {
						_, _ = tr.Delete(Path(o.path))
					} else {
						_, _ = tr.Insert(Path(o.path), &SecureSerializableValue{Buffer: []byte("v")})
					}
				}
				var keys []string
				for k := range live {
					keys = append(keys, k)
				}
				sort.Strings(keys)
				direct := c02trie()
				for _, k := range keys {
					_, _ = direct.Insert(Path(k), &SecureSerializableValue{Buffer: []byte("v")})
				}
				if string(tr.GetRoot()) != string(direct.GetRoot()) {
					fmt.Printf("GOCV-FAIL root depends on history: %v gives root %x, direct construction of %v gives %x\n", seq, tr.GetRoot(), keys, direct.GetRoot())
					fails++
				}
			}()
		}
		if len(seq) == 4 {
			return
		}
		for _, o := range ops {
			nl := map[string]bool{}
			for k := range live {
				nl[k] = true
			}
			if o.del {
				if !live[o.path] {
					continue
				}
				delete(nl, o.path)
			} else {
				if live[o.path] {
					continue
				}
				nl[o.path] = true
			}
			run(append(append([]op{}, seq...), o), nl)
		}
	}
	run(nil, map[string]bool{})
	if fails > 0 {
		t.Fail()
	}
	fmt.Println("GOCV-DONE")
}
