package util

// Witness for C16 (no operation on one trie blocks another for ever): a SaveChanges is held at the copy
// of its change set (it holds the trie lock for reading) while one Insert queues on the lock; then
// the save goes on. Sequentially the two commute: the save returns nil within its deadline with
// the complete saved state in the target, the insert returns the new root. A save whose worker
// goroutine takes the trie's read lock again (while the save waits for it under that lock) never
// finishes once the writer is queued.
// Adapted from the demonstration of a seeded change.
// obligation: (*MerklePatriciaTrie).SaveChanges::awaits-goroutine-under-lock => a save that meets a queued writer never finishes
// obligation: (*MerklePatriciaTrie).SaveChanges::reacquire => a save that meets a queued writer never finishes

import (
	"bytes"
	"context"
	"fmt"
	"sync"
	"testing"
	"time"

	"github.com/0chain/common/core/logging"
	"github.com/0chain/common/core/statecache"
	"go.uber.org/zap"
)

// w16HookCollector wraps the trie's change collector. Its Clone reports that the
// caller (SaveChanges, holding the trie lock for reading) has reached the copy of
// the change set and holds it there until the test lets it go on. Nothing else is
// altered: the copy is the one of the wrapped collector.
type w16HookCollector struct {
	ChangeCollectorI
	inClone chan struct{}
	proceed chan struct{}
	once    sync.Once
}

func (h *w16HookCollector) Clone() ChangeCollectorI {
	h.once.Do(func() {
		close(h.inClone)
		<-h.proceed
	})
	return h.ChangeCollectorI.Clone()
}

func w16NewTrie(db NodeDB) *MerklePatriciaTrie {
	_, tc := statecache.NewBlockTxnCaches(statecache.NewStateCache(), statecache.Block{})
	return NewMerklePatriciaTrie(db, Sequence(1), nil, tc)
}

func w16Path(i int) Path { return Path(fmt.Sprintf("%08x", i*2654435761%0xffffffff)) }

func w16Val(i int) *SecureSerializableValue {
	return &SecureSerializableValue{Buffer: []byte(fmt.Sprintf("value-%d", i))}
}

// w16CheckSaved checks that store holds the complete trie with the given root and
// that it maps exactly keys [0,n) to their values.
func w16CheckSaved(t *testing.T, store NodeDB, root Key, n int) {
	t.Helper()
	saved := w16NewTrie(store)
	saved.root = root
	for i := 0; i < n; i++ {
		got, err := saved.GetNodeValueRaw(w16Path(i))
		if err != nil {
			w16fail(t, "saved state: key %d: %v", i, err)
		}
		want, _ := w16Val(i).MarshalMsg(nil)
		if !bytes.Equal(got, want) {
			w16fail(t, "saved state: key %d: got %q want %q", i, got, want)
		}
	}
}

// A save is in progress (it holds the trie lock for reading and is copying the
// change set) when one insert is called. Sequentially the two operations commute:
// the save returns nil and the target store holds the saved root, the insert
// returns the new root.
func w16SaveMeetsInsert(t *testing.T, withDeadline bool) {
	const n = 40
	src, target := NewMemoryNodeDB(), NewMemoryNodeDB()
	mpt := w16NewTrie(src)
	ref := w16NewTrie(NewMemoryNodeDB())
	for i := 0; i < n; i++ {
		if _, err := mpt.Insert(w16Path(i), w16Val(i)); err != nil {
			w16fail(t, "%v", err)
		}
		if _, err := ref.Insert(w16Path(i), w16Val(i)); err != nil {
			w16fail(t, "%v", err)
		}
	}
	rootBefore := mpt.GetRoot()

	hook := &w16HookCollector{
		ChangeCollectorI: mpt.ChangeCollector,
		inClone:          make(chan struct{}),
		proceed:          make(chan struct{}),
	}
	mpt.ChangeCollector = hook

	ctx := context.Background()
	if withDeadline {
		var cancel context.CancelFunc
		ctx, cancel = context.WithTimeout(ctx, 3*time.Second)
		defer cancel()
	}

	saveDone := make(chan error, 1)
	go func() { saveDone <- mpt.SaveChanges(ctx, target, false) }()

	<-hook.inClone // the save holds the read lock now
	type insRes struct {
		root Key
		err  error
	}
	insDone := make(chan insRes, 1)
	go func() {
		r, err := mpt.Insert(w16Path(n), w16Val(n))
		insDone <- insRes{r, err}
	}()
	time.Sleep(300 * time.Millisecond) // the insert is queued on the trie lock
	close(hook.proceed)

	watchdog := time.After(8 * time.Second)
	select {
	case err := <-saveDone:
		if err != nil {
			w16fail(t, "SaveChanges concurrent with one Insert: %v (the target store is an idle in-memory map; sequentially the save succeeds)", err)
		}
	case <-watchdog:
		w16fail(t, "SaveChanges concurrent with one Insert never returned (and neither did the Insert: %d pending)", 1-len(insDone))
	}
	// the save linearizes before the insert (it held the lock first): the target
	// holds the complete state it saved
	w16CheckSaved(t, target, rootBefore, n)

	select {
	case r := <-insDone:
		if r.err != nil {
			w16fail(t, "Insert: %v", r.err)
		}
		wantRoot, err := ref.Insert(w16Path(n), w16Val(n))
		if err != nil {
			w16fail(t, "%v", err)
		}
		if !bytes.Equal(r.root, wantRoot) || !bytes.Equal(mpt.GetRoot(), wantRoot) {
			w16fail(t, "final root %x, sequential execution gives %x", mpt.GetRoot(), wantRoot)
		}
	case <-watchdog:
		w16fail(t, "Insert concurrent with SaveChanges never returned")
	}
}

func TestGocvWitnessC16SaveMeetsWriter(t *testing.T) {
	logging.Logger = zap.NewNop()
	w16SaveMeetsInsert(t, true)
}

func w16fail(t *testing.T, format string, a ...interface{}) {
	t.Helper()
	fmt.Printf("GOCV-FAIL a save that meets a queued writer never finishes: %s\n", fmt.Sprintf(format, a...))
	t.FailNow()
}
