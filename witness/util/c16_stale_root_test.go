package util

// Witness for C16 (atomicity of an update): several goroutines update one trie concurrently, each on
// its own keys; every update must succeed and the final content and root must equal a sequential
// execution. An update that reads the root before it takes the write lock works on a stale root and
// loses or rejects updates. Adapted from the demonstration of a seeded change (3 rounds instead of 20).
// obligation: (*MerklePatriciaTrie).Delete::pre:(*MerklePatriciaTrie).delete#operates-on-the-current-root => concurrent updates do not equal a sequential execution
// obligation: (*MerklePatriciaTrie).Insert::pre:(*MerklePatriciaTrie).insert#operates-on-the-current-root => concurrent updates do not equal a sequential execution

import (
	"context"
	"fmt"
	"sync"
	"testing"

	"github.com/0chain/common/core/logging"
	"github.com/0chain/common/core/statecache"
	"go.uber.org/zap"
)

// TestSeededDemo: several goroutines update ONE trie concurrently, each goroutine working on
// its own keys only (it deletes keys that were inserted before the concurrent phase and inserts
// fresh ones). Since the key sets are disjoint, every sequential order of the completed updates
// gives the same map, so:
//   - every Delete of a key that is present (and that nobody else touches) must succeed,
//   - every Insert must succeed,
//   - afterwards the trie must hold exactly the freshly inserted keys, and its root must equal
//     the root of a trie that executed the same updates sequentially.
func TestGocvWitnessC16StaleRoot(t *testing.T) {
	defer fmt.Println("GOCV-DONE")
	logging.Logger = zap.NewNop()

	const (
		rounds     = 3
		goroutines = 8
		perG       = 40
	)

	oldKey := func(g, i int) Path { return Path(fmt.Sprintf("%02x%04x0a", g, i)) }
	newKey := func(g, i int) Path { return Path(fmt.Sprintf("%02x%04x0b", g, i)) }
	val := func(k Path) *SecureSerializableValue {
		return &SecureSerializableValue{Buffer: []byte("v" + string(k))}
	}

	for round := 0; round < rounds; round++ {
		mpt := NewMerklePatriciaTrie(NewMemoryNodeDB(), Sequence(0), nil, statecache.NewEmpty())
		ref := NewMerklePatriciaTrie(NewMemoryNodeDB(), Sequence(0), nil, statecache.NewEmpty())

		// sequential prefix: the keys that are going to be deleted
		for g := 0; g < goroutines; g++ {
			for i := 0; i < perG; i++ {
				for _, tr := range []*MerklePatriciaTrie{mpt, ref} {
					if _, err := tr.Insert(oldKey(g, i), val(oldKey(g, i))); err != nil {
						c16fail(t, "setup insert: %v", err)
					}
				}
			}
		}

		// concurrent phase
		var (
			wg    sync.WaitGroup
			errMu sync.Mutex
			errs  []string
		)
		start := make(chan struct{})
		for g := 0; g < goroutines; g++ {
			wg.Add(1)
			go func(g int) {
				defer wg.Done()
				<-start
				for i := 0; i < perG; i++ {
					if _, err := mpt.Delete(oldKey(g, i)); err != nil {
						errMu.Lock()
						errs = append(errs, fmt.Sprintf("Delete(%s) of a present key: %v", oldKey(g, i), err))
						errMu.Unlock()
					}
					if _, err := mpt.Insert(newKey(g, i), val(newKey(g, i))); err != nil {
						errMu.Lock()
						errs = append(errs, fmt.Sprintf("Insert(%s): %v", newKey(g, i), err))
						errMu.Unlock()
					}
				}
			}(g)
		}
		close(start)
		wg.Wait()

		// the same completed updates, sequentially
		for g := 0; g < goroutines; g++ {
			for i := 0; i < perG; i++ {
				if _, err := ref.Delete(oldKey(g, i)); err != nil {
					c16fail(t, "reference delete: %v", err)
				}
				if _, err := ref.Insert(newKey(g, i), val(newKey(g, i))); err != nil {
					c16fail(t, "reference insert: %v", err)
				}
			}
		}

		failed := false
		if len(errs) > 0 {
			failed = true
			c16fail(t, "round %d: %d operations failed, first: %s", round, len(errs), errs[0])
		}

		// final content
		lost, zombies := 0, 0
		for g := 0; g < goroutines; g++ {
			for i := 0; i < perG; i++ {
				if _, err := mpt.GetNodeValueRaw(newKey(g, i)); err != nil {
					lost++
				}
				if _, err := mpt.GetNodeValueRaw(oldKey(g, i)); err != ErrValueNotPresent {
					zombies++
				}
			}
		}
		if lost > 0 || zombies > 0 {
			failed = true
			c16fail(t, "round %d: %d inserted keys are not readable, %d deleted keys are not reported absent", round, lost, zombies)
		}
		values := 0
		err := mpt.Iterate(context.Background(), func(ctx context.Context, path Path, key Key, node Node) error {
			values++
			return nil
		}, NodeTypeValueNode)
		if err != nil || values != goroutines*perG {
			failed = true
			c16fail(t, "round %d: Iterate: err=%v, %d values, want %d", round, err, values, goroutines*perG)
		}
		if got, want := ToHex(mpt.GetRoot()), ToHex(ref.GetRoot()); got != want {
			failed = true
			c16fail(t, "round %d: root after the concurrent run %s, after the sequential run %s", round, got, want)
		}
		if failed {
			return
		}
	}
}

func c16fail(t *testing.T, format string, a ...interface{}) {
	fmt.Printf("GOCV-FAIL concurrent updates do not equal a sequential execution: %s\n", fmt.Sprintf(format, a...))
	t.Fail()
}
