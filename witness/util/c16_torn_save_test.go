package util

// Witness for C16 (a save concurrent with an update sees the trie before or after the update): an
// Insert is interrupted at each of its node writes by a SaveChanges on the same trie; the saved
// store must hold the complete content of the trie before the insert or after it. A save that
// snapshots the change collector outside the trie lock can store a torn change set.
// Adapted from the demonstration of a seeded change.
// obligation: (*MerklePatriciaTrie).SaveChanges::guard: => a save concurrent with an insert stores a torn state
// obligation: (*MerklePatriciaTrie).SaveChanges::holds: => a save concurrent with an insert stores a torn state

import (
	"context"
	"fmt"
	"sort"
	"strings"
	"sync/atomic"
	"testing"
	"time"

	"github.com/0chain/common/core/logging"
	"github.com/0chain/common/core/statecache"
	"go.uber.org/zap"
)

// demoGateDB is the node store of the trie under test. It is a MemoryNodeDB whose PutNode
// calls a hook first, which lets the test stop an update in the middle (the writer holds
// the trie lock at that point) and start another operation on the trie from there.
type demoGateDB struct {
	*MemoryNodeDB
	puts int32
	hook func(n int32)
}

func (g *demoGateDB) PutNode(key Key, node Node) error {
	n := atomic.AddInt32(&g.puts, 1)
	if g.hook != nil {
		g.hook(n)
	}
	return g.MemoryNodeDB.PutNode(key, node)
}

// demoContent returns "path=value" for all values reachable from root using only the
// nodes of db, or an error when a node is missing
func demoContent(db NodeDB, root Key) ([]string, error) {
	t := NewMerklePatriciaTrie(db, 1, root, statecache.NewEmpty())
	var out []string
	err := t.Iterate(context.Background(), func(ctx context.Context, path Path, key Key, node Node) error {
		if node == nil {
			return ErrNodeNotFound
		}
		if v, ok := node.(*ValueNode); ok {
			out = append(out, fmt.Sprintf("%s=%s", string(path), string(v.GetValueBytes())))
		}
		return nil
	}, NodeTypeValueNode|NodeTypeLeafNode|NodeTypeFullNode|NodeTypeExtensionNode)
	sort.Strings(out)
	return out, err
}

func demoVal(s string) MPTSerializable { return &SecureSerializableValue{Buffer: []byte(s)} }

// TestSeededDemo: one goroutine inserts a key, another one saves the changes of the same
// trie to a store. The save is started while the insert is at its k-th node write, for
// every k. A save is atomic with respect to the updates: whatever the interleaving, after
// both calls have returned the store has to hold the complete trie of the root before the
// insert or of the root after it.
func TestGocvWitnessC16TornSave(t *testing.T) {
	defer fmt.Println("GOCV-DONE")
	logging.Logger = zap.NewNop()

	before := []string{"aa11=v1", "aa22=v2", "bb33=v3"}
	after := []string{"aa11=v1", "aa12=v4", "aa22=v2", "bb33=v3"}

	for k := int32(1); ; k++ {
		gdb := &demoGateDB{MemoryNodeDB: NewMemoryNodeDB()}
		trie := NewMerklePatriciaTrie(gdb, 1, nil, statecache.NewEmpty())
		for _, kv := range before {
			p := strings.SplitN(kv, "=", 2)
			if _, err := trie.Insert(Path(p[0]), demoVal(p[1])); err != nil {
				t.Fatal(err)
			}
		}
		root0 := trie.GetRoot()
		store := NewMemoryNodeDB() // nothing saved yet

		saveDone := make(chan error, 1)
		started := false
		atomic.StoreInt32(&gdb.puts, 0)
		gdb.hook = func(n int32) {
			if n != k {
				return
			}
			started = true
			go func() { saveDone <- trie.SaveChanges(context.Background(), store, false) }()
			// give the save the time to go as far as it can while the insert is stopped here
			select {
			case err := <-saveDone:
				saveDone <- err
			case <-time.After(150 * time.Millisecond):
			}
		}
		root1, err := trie.Insert(Path("aa12"), demoVal("v4"))
		if err != nil {
			t.Fatal(err)
		}
		gdb.hook = nil
		if !started {
			t.Logf("the insert writes %d nodes; all interleaving points checked", k-1)
			return
		}
		if err := <-saveDone; err != nil {
			c16tsFail(t, "k=%d: save failed: %v", k, err)
		}

		c0, err0 := demoContent(store, root0)
		c1, err1 := demoContent(store, root1)
		ok0 := err0 == nil && fmt.Sprint(c0) == fmt.Sprint(before)
		ok1 := err1 == nil && fmt.Sprint(c1) == fmt.Sprint(after)
		if !ok0 && !ok1 {
			c16tsFail(t, "save started at node write %d of the insert: the saved store holds neither the trie before the insert "+
				"(root %s: %v, err=%v) nor the trie after it (root %s: %v, err=%v)",
				k, ToHex(root0), c0, err0, ToHex(root1), c1, err1)
		}

		// the trie itself is not affected
		got, err := demoContent(gdb, trie.GetRoot())
		if err != nil || fmt.Sprint(got) != fmt.Sprint(after) {
			c16tsFail(t, "k=%d: trie content %v, err=%v", k, got, err)
		}
	}
}

func c16tsFail(t *testing.T, format string, a ...interface{}) {
	fmt.Printf("GOCV-FAIL a save concurrent with an insert stores a torn state: %s\n", fmt.Sprintf(format, a...))
	t.FailNow()
}
