package util

// Witness for C16: concurrent lookups that hit missing nodes must not race on the missing-key list.
// gocv-flags: -race
// obligation: (*MerklePatriciaTrie).getNode::guard:MerklePatriciaTrie.missingNodeKeys => DATA RACE
import (
	"context"
	"sync"
	"testing"

	"github.com/0chain/common/core/logging"
	"github.com/0chain/common/core/statecache"
	"go.uber.org/zap"
)

func TestGocvWitnessC16(t *testing.T) {
	logging.Logger = zap.NewNop()
	sc := statecache.NewStateCache()
	_, tc := statecache.NewBlockTxnCaches(sc, statecache.Block{})
	db := NewMemoryNodeDB()
	tr := NewMerklePatriciaTrie(db, 1, nil, tc)
	val := &SecureSerializableValue{Buffer: []byte("v")}
	_, _ = tr.Insert(Path("1234"), val)
	_, _ = tr.Insert(Path("1256"), val)
	_, _ = tr.Insert(Path("3456"), val)
	root := tr.GetRoot()
	// a second trie over an empty store with the same root: every lookup hits a missing node
	_, tc2 := statecache.NewBlockTxnCaches(statecache.NewStateCache(), statecache.Block{})
	tr2 := NewMerklePatriciaTrie(NewMemoryNodeDB(), 1, root, tc2)
	var wg sync.WaitGroup
	for g := 0; g < 4; g++ {
		wg.Add(1)
		go func() {
			defer wg.Done()
			for i := 0; i < 200; i++ {
				_, _ = tr2.GetNodeValueRaw(Path("1234")) // readers: append to missingNodeKeys under RLock
			}
		}()
	}
	wg.Add(1)
	go func() {
		defer wg.Done()
		for i := 0; i < 200; i++ {
			_ = tr.IterateFrom(context.TODO(), root, func(ctx context.Context, path Path, key Key, node Node) error { return nil }, NodeTypeLeafNode)
			_, _ = tr.Insert(Path("1299"), val)
		}
	}()
	wg.Wait()
}
