package wmpt

// Witness for C11: reading the root hash between an update and the commit must not stop the commit
// from storing the changed nodes: a trie reopened from the committed root hash and weight has to
// resolve every key. (CalcHash used to mark the nodes it hashed as clean, and Commit only saves
// dirty nodes.)
// obligation: (*routingNode).CalcHash::frame:F$wmpt.routingNode$dirty => committed root is not resolvable after Root() was read before Commit
// obligation: (*shortNode).CalcHash::frame:F$wmpt.shortNode$dirty => committed root is not resolvable after Root() was read before Commit
// obligation: (*valueNode).CalcHash::frame:F$wmpt.valueNode$dirty => committed root is not resolvable after Root() was read before Commit
// obligation: (*routingNode).Save::post#saved-node-is-clean => committed root is not resolvable after Root() was read before Commit
// obligation: (*shortNode).Save::post#saved-node-is-clean => committed root is not resolvable after Root() was read before Commit
// obligation: (*valueNode).Save::post#saved-node-is-clean => committed root is not resolvable after Root() was read before Commit

import (
	"errors"
	"fmt"
	"sync"
	"testing"

	"github.com/0chain/common/core/util/storage"
)

type w11Store struct{ m map[string][]byte }

func (s *w11Store) Get(k []byte) ([]byte, error) {
	v, ok := s.m[string(k)]
	if !ok {
		return nil, errors.New("pebble: not found")
	}
	return v, nil
}
func (s *w11Store) Put(k, v []byte) error { s.m[string(k)] = append([]byte{}, v...); return nil }
func (s *w11Store) Delete(k []byte) error { delete(s.m, string(k)); return nil }
func (s *w11Store) Close()                {}
func (s *w11Store) NewBatch() storage.Batcher {
	return &w11Batch{s: s}
}

// Commit fills one batch from several goroutines: the batch serialises its own operations.
type w11Batch struct {
	mu  sync.Mutex
	s   *w11Store
	ops []func()
}

func (b *w11Batch) Put(k, v []byte) error {
	kk, vv := append([]byte{}, k...), append([]byte{}, v...)
	b.mu.Lock()
	defer b.mu.Unlock()
	b.ops = append(b.ops, func() { b.s.m[string(kk)] = vv })
	return nil
}
func (b *w11Batch) Delete(k []byte) error {
	kk := append([]byte{}, k...)
	b.mu.Lock()
	defer b.mu.Unlock()
	b.ops = append(b.ops, func() { delete(b.s.m, string(kk)) })
	return nil
}
func (b *w11Batch) Commit(bool) error {
	b.mu.Lock()
	defer b.mu.Unlock()
	for _, op := range b.ops {
		op()
	}
	return nil
}

func w11key(bs ...byte) []byte {
	k := make([]byte, 32)
	copy(k, bs)
	return k
}

func TestGocvWitnessC11(t *testing.T) {
	defer fmt.Println("GOCV-DONE")
	keys := [][]byte{w11key(0x12, 0x34), w11key(0x12, 0x35), w11key(0x80)}
	db := &w11Store{m: map[string][]byte{}}
	tr := New(nil, db)
	for i, k := range keys {
		if err := tr.Update(k, []byte{byte('a' + i)}, uint64(i+1)); err != nil {
			t.Fatal(err)
		}
	}
	_ = tr.Root() // a reader asks for the root hash before the commit
	b, err := tr.Commit(1)
	if err != nil {
		t.Fatal(err)
	}
	if err := b.Commit(false); err != nil {
		t.Fatal(err)
	}
	re := New(&hashNode{hash: tr.Root(), weight: tr.Weight()}, db)
	for blk := uint64(1); blk <= tr.Weight(); blk++ {
		if _, _, err := re.GetBlockProof(blk); err != nil {
			fmt.Printf("GOCV-FAIL committed root is not resolvable after Root() was read before Commit: block %d of the reopened trie: %v (%d nodes in the store)\n", blk, err, len(db.m))
			t.Fail()
			return
		}
	}
}
