package wmpt

// Witness for C10: a proof in which claimed weight is moved between the child the proof descends
// into and one of its siblings (sum kept) must not verify to the trusted root with the value of a
// key that does not own the block.
// obligation: verifyProof::post#rebuilt-branch-is-weight-consistent => forged proof by re-weighting the child on the path

import (
	"bytes"
	"encoding/binary"
	"fmt"
	"testing"

	"github.com/fxamacker/cbor/v2"
)

func TestGocvWitnessC10(t *testing.T) {
	defer fmt.Println("GOCV-DONE")
	ka, kb := make([]byte, 32), make([]byte, 32)
	ka[0], kb[0] = 0x10, 0x20
	tr := New(nil, nil)
	if err := tr.Update(ka, []byte("a"), 5); err != nil {
		t.Fatal(err)
	}
	if err := tr.Update(kb, []byte("b"), 7); err != nil {
		t.Fatal(err)
	}
	root := append([]byte{}, tr.Root()...)
	// honest proof for block 6 (the first block of key b)
	_, proof, err := tr.GetBlockProof(6)
	if err != nil {
		t.Fatal(err)
	}
	pt := &PersistTrie{}
	if err := cbor.Unmarshal(proof, pt); err != nil {
		t.Fatal(err)
	}
	base := PersistNodeBase{}
	if err := cbor.Unmarshal(pt.Pairs[0].Value, &base); err != nil || base.Branch == nil {
		t.Fatalf("first proof element is not a branch: %v", err)
	}
	// claim a: 4 (true 5), b: 8 (true 7); the sum, which is all the root hash binds, stays 12
	ca, cb := base.Branch.Children[1], base.Branch.Children[2]
	binary.BigEndian.PutUint64(ca[32:40], 4)
	binary.BigEndian.PutUint64(cb[32:40], 8)
	pt.Pairs[0].Value, _ = cbor.Marshal(&base)
	forged, _ := cbor.Marshal(pt)
	// block 5 belongs to key a (blocks 1..5)
	h, v, err := New(nil, nil).VerifyBlockProof(5, forged)
	if err == nil && bytes.Equal(h, root) && string(v) != "a" {
		fmt.Printf("GOCV-FAIL forged proof by re-weighting the child on the path: block 5 is owned by key a, the forged proof verifies with the trusted root %x and value %q\n", root[:6], v)
		t.Fail()
	}
	// the same forgery made consistent one level down: the short node on the path also claims 8
	short := PersistNodeBase{}
	if err := cbor.Unmarshal(pt.Pairs[1].Value, &short); err == nil && short.Short != nil && len(short.Short.Value) == hashWithWeightLength {
		binary.BigEndian.PutUint64(short.Short.Value[32:], 8)
		pt.Pairs[1].Value, _ = cbor.Marshal(&short)
		forged2, _ := cbor.Marshal(pt)
		h, v, err := New(nil, nil).VerifyBlockProof(5, forged2)
		if err == nil && bytes.Equal(h, root) && string(v) != "a" {
			fmt.Printf("GOCV-FAIL forged proof by re-weighting the child on the path: (branch and short-node claims both rewritten) block 5 is owned by key a, the forged proof verifies with the trusted root %x and value %q\n", root[:6], v)
			t.Fail()
		}
	}
}
