package wmpt

// Witness tests for C15 obligations of the wmpt decoders: each builds the malformed input class
// named by a failed safety obligation and fails iff the real decoder panics on it.
// obligation: DeserializeNode::index:branchNode.Children[i] => DeserializeNode(17 children)
// obligation: DeserializeNode::slice:child[ => DeserializeNode(child blob
// obligation: verifyProof::nil:persistTrie.Pairs[*ind].Value => VerifyBlockProof(null pair)
// obligation: (*WeightedMerkleTrie).deserializeTrie::nil:pairs[*ind].Value => Deserialize(null pair)

import (
	"fmt"
	"testing"

	"github.com/fxamacker/cbor/v2"
)

func noPanic(t *testing.T, name string, f func()) {
	defer func() {
		if r := recover(); r != nil {
			fmt.Printf("GOCV-PANIC %s: %v\n", name, r)
			t.Errorf("%s panicked: %v", name, r)
		}
	}()
	f()
}

func TestGocvWitnessC15(t *testing.T) {
	// more than 16 children
	kids := make([][]byte, 17)
	for i := range kids {
		kids[i] = make([]byte, 40)
	}
	b17, _ := cbor.Marshal(&PersistNodeBase{Branch: &PersistNodeBranch{Hash: make([]byte, 32), Children: kids}})
	noPanic(t, "DeserializeNode(17 children)", func() { _, _ = DeserializeNode(b17) })
	// child blob of 41 and 71 bytes
	for _, n := range []int{41, 71, 72} {
		ks := make([][]byte, 16)
		ks[3] = make([]byte, n)
		bb, _ := cbor.Marshal(&PersistNodeBase{Branch: &PersistNodeBranch{Hash: make([]byte, 32), Children: ks}})
		noPanic(t, fmt.Sprintf("DeserializeNode(child blob %d bytes)", n), func() { _, _ = DeserializeNode(bb) })
	}
	// a null pair inside a path export / proof
	nullPairs, _ := cbor.Marshal(&PersistTrie{Pairs: []*PersistTriePair{nil}})
	noPanic(t, "Deserialize(null pair)", func() { _ = New(nil, nil).Deserialize(nullPairs) })
	noPanic(t, "VerifyBlockProof(null pair)", func() { _, _, _ = New(nil, nil).VerifyBlockProof(1, nullPairs) })
	fmt.Println("GOCV-DONE")
}
