package wmpt

// Witness for C09 (root follows content): after the root hash has been computed, overwriting a key
// with a different value of the same weight must change the root to the root of a trie built
// directly from the final content. A stale cached hash on the path shows as a root that does not move.
// obligation: (*WeightedMerkleTrie).insert::post#clean-interior-result-means-nothing-written => root after an equal-weight overwrite
// obligation: (*WeightedMerkleTrie).insert::post#clean-value-means-not-overwritten => root after an equal-weight overwrite
// obligation: (*WeightedMerkleTrie).insert::post#dirty-flags-only-set => root after an equal-weight overwrite

import (
	"bytes"
	"errors"
	"fmt"
	"testing"

	"github.com/0chain/common/core/util/storage"
)

type memStoreSH struct{ m map[string][]byte }

func (s *memStoreSH) Get(k []byte) ([]byte, error) {
	v, ok := s.m[string(k)]
	if !ok {
		return nil, errors.New("pebble: not found")
	}
	return v, nil
}
func (s *memStoreSH) Put(k, v []byte) error { s.m[string(k)] = append([]byte{}, v...); return nil }
func (s *memStoreSH) Delete(k []byte) error { delete(s.m, string(k)); return nil }
func (s *memStoreSH) Close()                {}
func (s *memStoreSH) NewBatch() storage.Batcher {
	return &memBatchSH{s: s}
}

type memBatchSH struct {
	s   *memStoreSH
	ops []func()
}

func (b *memBatchSH) Put(k, v []byte) error {
	kk, vv := append([]byte{}, k...), append([]byte{}, v...)
	b.ops = append(b.ops, func() { b.s.m[string(kk)] = vv })
	return nil
}
func (b *memBatchSH) Delete(k []byte) error {
	kk := append([]byte{}, k...)
	b.ops = append(b.ops, func() { delete(b.s.m, string(kk)) })
	return nil
}
func (b *memBatchSH) Commit(bool) error {
	for _, op := range b.ops {
		op()
	}
	return nil
}

func c09key(bs ...byte) []byte {
	k := make([]byte, 32)
	copy(k, bs)
	return k
}

func TestGocvWitnessC09StaleHash(t *testing.T) {
	keys := [][]byte{c09key(0x11), c09key(0x12, 0x34), c09key(0x12, 0x34, 0x50), c09key(0x12, 0x35), c09key(0x80), c09key(0x80, 0, 0, 1)}
	vals := []string{"aaaa", "bbbb", "cccc", "dddd", "eeee", "ffff"}
	for target := range keys {
		for _, commitFirst := range []bool{false, true} {
			db := &memStoreSH{m: map[string][]byte{}}
			tr := New(nil, db)
			for i, k := range keys {
				if err := tr.Update(k, []byte(vals[i]), uint64(len(vals[i]))); err != nil {
					t.Fatal(err)
				}
			}
			if commitFirst {
				b, err := tr.Commit(1)
				if err != nil {
					t.Fatal(err)
				}
				_ = b.Commit(false)
			}
			_ = tr.Root()
			if err := tr.Update(keys[target], []byte("ZZZZ"), 4); err != nil {
				t.Fatal(err)
			}
			direct := New(nil, &memStoreSH{m: map[string][]byte{}})
			for i, k := range keys {
				v := vals[i]
				if i == target {
					v = "ZZZZ"
				}
				if err := direct.Update(k, []byte(v), 4); err != nil {
					t.Fatal(err)
				}
			}
			if !bytes.Equal(tr.Root(), direct.Root()) {
				fmt.Printf("GOCV-FAIL root after an equal-weight overwrite of key %x (commit first: %v): Root() = %x, trie built from the final content has %x\n", keys[target][:4], commitFirst, tr.Root(), direct.Root())
				t.Fail()
				fmt.Println("GOCV-DONE")
				return
			}
		}
	}
	fmt.Println("GOCV-DONE")
}
