package wmpt

// Witness for C09: updating the value of a key whose value node has been collapsed to a hash node
// must change the total weight by (new - old), not by the full new weight.
// obligation: (*WeightedMerkleTrie).insert::post#pathend.delta => total weight after updating a collapsed value

import (
	"errors"
	"fmt"
	"testing"

	"github.com/0chain/common/core/util/storage"
)

type memStore struct{ m map[string][]byte }

func (s *memStore) Get(k []byte) ([]byte, error) {
	v, ok := s.m[string(k)]
	if !ok {
		return nil, errors.New("pebble: not found")
	}
	return v, nil
}
func (s *memStore) Put(k, v []byte) error { s.m[string(k)] = append([]byte{}, v...); return nil }
func (s *memStore) Delete(k []byte) error { delete(s.m, string(k)); return nil }
func (s *memStore) Close()                {}
func (s *memStore) NewBatch() storage.Batcher {
	return &memBatch{s: s}
}

type memBatch struct {
	s   *memStore
	ops []func()
}

func (b *memBatch) Put(k, v []byte) error {
	kk, vv := append([]byte{}, k...), append([]byte{}, v...)
	b.ops = append(b.ops, func() { b.s.m[string(kk)] = vv })
	return nil
}
func (b *memBatch) Delete(k []byte) error {
	kk := append([]byte{}, k...)
	b.ops = append(b.ops, func() { delete(b.s.m, string(kk)) })
	return nil
}
func (b *memBatch) Commit(bool) error {
	for _, op := range b.ops {
		op()
	}
	return nil
}

func key32(b byte) []byte {
	k := make([]byte, 32)
	k[0] = b
	return k
}

func TestGocvWitnessC09(t *testing.T) {
	db := &memStore{m: map[string][]byte{}}
	tr := New(nil, db)
	if err := tr.Update(key32(0x10), []byte("five"), 5); err != nil {
		t.Fatal(err)
	}
	if err := tr.Update(key32(0x20), []byte("seven"), 7); err != nil {
		t.Fatal(err)
	}
	b, err := tr.Commit(1)
	if err != nil {
		t.Fatal(err)
	}
	_ = b.Commit(false)
	if err := tr.Update(key32(0x10), []byte("six"), 6); err != nil {
		t.Fatal(err)
	}
	if got := tr.Weight(); got != 13 {
		fmt.Printf("GOCV-FAIL total weight after updating a collapsed value: Weight() = %d, want 13 (6 + 7)\n", got)
		t.Fail()
	}
	fmt.Println("GOCV-DONE")
}
