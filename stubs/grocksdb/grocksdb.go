// Package grocksdb is a pure-Go, in-memory stand-in for github.com/linxGnu/grocksdb v1.8.0,
// covering exactly the API surface core/util uses. It exists so that core/util type-checks,
// builds and runs offline (the real binding needs a cgo RocksDB that does not match this
// sandbox). Trusted base: "RocksDB is an ordered key/value store whose WriteBatch is atomic".
package grocksdb

import (
	"errors"
	"sort"
	"strconv"
	"sync"
)

type CompressionType uint

const (
	NoCompression  CompressionType = 0
	LZ4Compression CompressionType = 4
)

type Options struct{}

func NewDefaultOptions() *Options                                    { return &Options{} }
func (o *Options) SetCreateIfMissing(bool)                           {}
func (o *Options) SetCompression(CompressionType)                    {}
func (o *Options) SetCreateIfMissingColumnFamilies(bool)             {}
func (o *Options) OptimizeUniversalStyleCompaction(uint64)           {}
func (o *Options) SetAllowMmapReads(bool)                            {}
func (o *Options) SetPrefixExtractor(*SliceTransform)                {}
func (o *Options) SetPlainTableFactory(uint32, int, float64, uint)   {}
func (o *Options) OptimizeForPointLookup(uint64)                     {}
func (o *Options) SetMaxBackgroundJobs(int)                          {}
func (o *Options) SetMaxWriteBufferNumber(int)                       {}
func (o *Options) SetWriteBufferSize(uint64)                         {}
func (o *Options) SetMinWriteBufferNumberToMerge(int)                {}
func (o *Options) IncreaseParallelism(int)                           {}
func (o *Options) SetDbLogDir(string)                                {}
func (o *Options) EnableStatistics()                                 {}
func (o *Options) SetDeleteObsoleteFilesPeriodMicros(uint64)         {}
func (o *Options) SetKeepLogFileNum(uint)                            {}
func (o *Options) SetBlockBasedTableFactory(*BlockBasedTableOptions) {}

type SliceTransform struct{}

func NewFixedPrefixTransform(int) *SliceTransform { return &SliceTransform{} }

type BlockBasedTableOptions struct{}

func NewDefaultBlockBasedTableOptions() *BlockBasedTableOptions { return &BlockBasedTableOptions{} }
func (b *BlockBasedTableOptions) SetBlockCache(*Cache)          {}

type Cache struct{}

func NewLRUCache(uint64) *Cache { return &Cache{} }

type ReadOptions struct{}

func NewDefaultReadOptions() *ReadOptions { return &ReadOptions{} }
func (r *ReadOptions) SetFillCache(bool)  {}
func (r *ReadOptions) Destroy()           {}

type WriteOptions struct{}

func NewDefaultWriteOptions() *WriteOptions { return &WriteOptions{} }
func (w *WriteOptions) SetSync(bool)        {}
func (w *WriteOptions) DisableWAL(bool)     {}
func (w *WriteOptions) Destroy()            {}

type TransactionOptions struct{}

func NewDefaultTransactionOptions() *TransactionOptions { return &TransactionOptions{} }

type FlushOptions struct{}

func NewDefaultFlushOptions() *FlushOptions { return &FlushOptions{} }

type ColumnFamilyHandle struct{ id int }

func (h *ColumnFamilyHandle) Destroy() {}

type Slice struct{ data []byte }

func (s *Slice) Data() []byte { return s.data }
func (s *Slice) Free()        {}
func (s *Slice) Size() int    { return len(s.data) }
func (s *Slice) Exists() bool { return s.data != nil }

// DB: column family 0 = default, 1.. = others; all in memory. Opening the same directory
// again within one process returns the same contents ("persistence" for reopen tests).
type DB struct {
	mu  sync.RWMutex
	cfs []map[string][]byte
	// FailAfter, if >= 0, makes the FailAfter-th next write operation (Put/Delete/Write) and all
	// later ones fail without effect: a crash point for fault enumeration.
	FailAfter int
	Writes    int
}

var (
	storeMu sync.Mutex
	stores  = map[string]*DB{}
)

var ErrInjected = errors.New("grocksdb stub: injected write failure")

func OpenDbColumnFamilies(opts *Options, name string, cfNames []string, cfOpts []*Options) (*DB, []*ColumnFamilyHandle, error) {
	storeMu.Lock()
	defer storeMu.Unlock()
	db, ok := stores[name]
	if !ok {
		db = &DB{FailAfter: -1}
		stores[name] = db
	}
	for len(db.cfs) < len(cfNames) {
		db.cfs = append(db.cfs, map[string][]byte{})
	}
	hs := make([]*ColumnFamilyHandle, len(cfNames))
	for i := range cfNames {
		hs[i] = &ColumnFamilyHandle{id: i}
	}
	return db, hs, nil
}

// ResetStub forgets all in-memory databases (test isolation).
func ResetStub() {
	storeMu.Lock()
	defer storeMu.Unlock()
	stores = map[string]*DB{}
}

func (db *DB) failing() bool {
	if db.FailAfter >= 0 && db.Writes >= db.FailAfter {
		return true
	}
	db.Writes++
	return false
}

func (db *DB) Get(ro *ReadOptions, key []byte) (*Slice, error) {
	db.mu.RLock()
	defer db.mu.RUnlock()
	v, ok := db.cfs[0][string(key)]
	if !ok {
		return &Slice{}, nil
	}
	return &Slice{data: append([]byte{}, v...)}, nil
}

func (db *DB) Put(wo *WriteOptions, key, value []byte) error {
	return db.PutCF(wo, &ColumnFamilyHandle{}, key, value)
}

func (db *DB) PutCF(wo *WriteOptions, cf *ColumnFamilyHandle, key, value []byte) error {
	db.mu.Lock()
	defer db.mu.Unlock()
	if db.failing() {
		return ErrInjected
	}
	db.cfs[cf.id][string(key)] = append([]byte{}, value...)
	return nil
}

func (db *DB) Delete(wo *WriteOptions, key []byte) error {
	db.mu.Lock()
	defer db.mu.Unlock()
	if db.failing() {
		return ErrInjected
	}
	delete(db.cfs[0], string(key))
	return nil
}

type batchOp struct {
	cf    int
	del   bool
	key   string
	value []byte
}

type WriteBatch struct{ ops []batchOp }

func NewWriteBatch() *WriteBatch { return &WriteBatch{} }
func (wb *WriteBatch) Put(key, value []byte) {
	wb.ops = append(wb.ops, batchOp{key: string(key), value: append([]byte{}, value...)})
}
func (wb *WriteBatch) Delete(key []byte) {
	wb.ops = append(wb.ops, batchOp{del: true, key: string(key)})
}
func (wb *WriteBatch) DeleteCF(cf *ColumnFamilyHandle, key []byte) {
	wb.ops = append(wb.ops, batchOp{cf: cf.id, del: true, key: string(key)})
}
func (wb *WriteBatch) PutCF(cf *ColumnFamilyHandle, key, value []byte) {
	wb.ops = append(wb.ops, batchOp{cf: cf.id, key: string(key), value: append([]byte{}, value...)})
}
func (wb *WriteBatch) Count() int { return len(wb.ops) }
func (wb *WriteBatch) Destroy()   {}

// Write applies the batch atomically (all or nothing).
func (db *DB) Write(wo *WriteOptions, wb *WriteBatch) error {
	db.mu.Lock()
	defer db.mu.Unlock()
	if db.failing() {
		return ErrInjected
	}
	for _, op := range wb.ops {
		if op.del {
			delete(db.cfs[op.cf], op.key)
		} else {
			db.cfs[op.cf][op.key] = op.value
		}
	}
	return nil
}

func (db *DB) GetPropertyCF(name string, cf *ColumnFamilyHandle) string {
	db.mu.RLock()
	defer db.mu.RUnlock()
	return strconv.Itoa(len(db.cfs[cf.id]))
}

func (db *DB) Flush(*FlushOptions) error { return nil }
func (db *DB) Close()                    {}

type Iterator struct {
	keys []string
	vals [][]byte
	pos  int
}

func (db *DB) NewIterator(ro *ReadOptions) *Iterator {
	return db.NewIteratorCF(ro, &ColumnFamilyHandle{})
}

func (db *DB) NewIteratorCF(ro *ReadOptions, cf *ColumnFamilyHandle) *Iterator {
	db.mu.RLock()
	defer db.mu.RUnlock()
	it := &Iterator{}
	for k := range db.cfs[cf.id] {
		it.keys = append(it.keys, k)
	}
	sort.Strings(it.keys)
	for _, k := range it.keys {
		it.vals = append(it.vals, append([]byte{}, db.cfs[cf.id][k]...))
	}
	return it
}

func (it *Iterator) SeekToFirst()  { it.pos = 0 }
func (it *Iterator) Valid() bool   { return it.pos < len(it.keys) }
func (it *Iterator) Next()         { it.pos++ }
func (it *Iterator) Key() *Slice   { return &Slice{data: []byte(it.keys[it.pos])} }
func (it *Iterator) Value() *Slice { return &Slice{data: it.vals[it.pos]} }
func (it *Iterator) Close()        {}
func (it *Iterator) Err() error    { return nil }
