#!/bin/bash
# usage: adhoc_test.sh <pkg dir relative to /repo, e.g. core/util> <run pattern> <test file>...
# Runs ad-hoc in-package test files against /repo through an overlay (nothing is written to /repo).
export GOFLAGS=-mod=mod GOPROXY=off GOSUMDB=off GOTOOLCHAIN=local
rel=$1; pat=$2; shift 2
work=$(mktemp -d /tmp/adhoc.XXXXXX)
cp /repo/go.mod $work/alt.mod; cp /repo/go.sum $work/alt.sum
echo "replace github.com/linxGnu/grocksdb => /verif/stubs/grocksdb" >> $work/alt.mod
python3 - "$work" "$rel" "$@" <<'PY'
import sys,os,json
work,rel=sys.argv[1],sys.argv[2]
rep={}
d=os.path.join('/repo',rel)
for f in os.listdir(d):
    if f.endswith('_test.go'): rep[os.path.join(d,f)]=""
for i,f in enumerate(sys.argv[3:]):
    rep[os.path.join(d,'zz_adhoc%d_test.go'%i)]=os.path.abspath(f)
json.dump({"Replace":rep},open(os.path.join(work,'ov.json'),'w'))
PY
(cd /repo && go test -modfile=$work/alt.mod -overlay=$work/ov.json -vet=off -count=1 -v -timeout 300s -run "$pat" ./$rel $EXTRA)
rc=$?
rm -rf $work
exit $rc
