#!/bin/bash
# usage: adhoc_test.sh <pkg dir relative to /repo, e.g. core/util> <run pattern> <test file>...
# Runs ad-hoc in-package test files against /repo (or $REPO) through an overlay (nothing is written there).
# $EXTRA: further go test flags (e.g. -coverprofile=...).
REPO=${REPO:-/repo}
export GOFLAGS=-mod=mod GOPROXY=off GOSUMDB=off GOTOOLCHAIN=local
rel=$1; pat=$2; shift 2
work=$(mktemp -d /tmp/adhoc.XXXXXX)
cp $REPO/go.mod $work/alt.mod; cp $REPO/go.sum $work/alt.sum
echo "replace github.com/linxGnu/grocksdb => /verif/stubs/grocksdb" >> $work/alt.mod
python3 - "$work" "$rel" "$REPO" "$@" <<'PY'
import sys,os,json
work,rel,repo=sys.argv[1],sys.argv[2],sys.argv[3]
rep={}
d=os.path.join(repo,rel)
for f in os.listdir(d):
    if f.endswith('_test.go'): rep[os.path.join(d,f)]=""
for i,f in enumerate(sys.argv[4:]):
    rep[os.path.join(d,'zz_adhoc%d_test.go'%i)]=os.path.abspath(f)
json.dump({"Replace":rep},open(os.path.join(work,'ov.json'),'w'))
PY
(cd $REPO && go test -modfile=$work/alt.mod -overlay=$work/ov.json -vet=off -count=1 -v -timeout 300s -run "$pat" ./$rel $EXTRA)
rc=$?
rm -rf $work
exit $rc
