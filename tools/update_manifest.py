#!/usr/bin/env python3
# Refreshes MANIFEST.json: hook commit list from /repo's log, and (with arguments) adds claimed checks.
# usage: update_manifest.py [add <ID> <category> <text> <technique> <level_note>]
import json, subprocess, sys
m = json.load(open('/verif/MANIFEST.json'))
log = subprocess.run(['git', '-C', '/repo', 'log', '--format=%h %s'], capture_output=True, text=True).stdout.splitlines()
m['hooks']['source_commits'] = [l.split()[0] for l in reversed(log) if l.split(' ', 1)[1].startswith('verif hook')]
if len(sys.argv) > 1 and sys.argv[1] == 'add':
    pid, cat, text, tech, note = sys.argv[2:7]
    m['checks'] = [c for c in m['checks'] if c['property_id'] != pid]
    m['checks'].append({
        "property_id": pid,
        "quick_cmd": f"bin/gocv check {pid} --tier quick",
        "thorough_cmd": f"bin/gocv check {pid} --tier thorough",
        "evidence_file": f"/verif/evidence/{pid}.json",
        "replay_cmd_template": "bin/gocv replay {path}",
        "engine": "gocv",
        "level_claimed": {"category": cat, "text": text, "design_ref": f"DESIGN.md §9 {pid}"},
        "level_note": note,
        "technique": tech,
    })
    m['not_applicable'] = [n for n in m['not_applicable'] if n['property_id'] != pid]
json.dump(m, open('/verif/MANIFEST.json', 'w'), indent=1)
print(len(m['hooks']['source_commits']), 'hook commits;', [c['property_id'] for c in m['checks']], 'claimed;', [n['property_id'] for n in m['not_applicable']], 'not applicable')
