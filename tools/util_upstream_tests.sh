#!/bin/bash
# usage: util_upstream_tests.sh <repo dir> <out file>
# Runs each upstream in-package test of core/util on its own (with the pure-Go grocksdb stand-in and
# the external util_test package blanked), writing "PASS name" / "FAIL name" lines: used to compare
# pass sets before and after a fix: commit (core/util does not build in the baseline suite here).
repo=$1; out=$2
w=$(mktemp -d /tmp/ut.XXXXXX)
cp $repo/go.mod $w/alt.mod; cp $repo/go.sum $w/alt.sum
echo "replace github.com/linxGnu/grocksdb => /verif/stubs/grocksdb" >> $w/alt.mod
echo "{\"Replace\": {\"$repo/core/util/merkle_patricia_trie_mocks_test.go\": \"\"}}" > $w/ov.json
export GOFLAGS="-mod=mod -modfile=$w/alt.mod" GOPROXY=off GOSUMDB=off GOTOOLCHAIN=local
cd $repo
go test -overlay=$w/ov.json -vet=off -c -o $w/util.test ./core/util/ || { rm -rf $w; exit 1; }
cd core/util
: > $out
for t in $($w/util.test -test.list '.*'); do
  if timeout 120 $w/util.test -test.run "^$t\$" -test.count=1 >/dev/null 2>&1; then echo "PASS $t" >> $out; else echo "FAIL $t" >> $out; fi
done
rm -rf $w
