#!/bin/sh
# usage: run.sh <repo dir> <out file>
repo=$1; out=$2
cd $repo
export GOFLAGS="-mod=mod -modfile=/tmp/ut/alt.mod" GOPROXY=off GOSUMDB=off GOTOOLCHAIN=local
sed "s#/repo/#$repo/#g" /tmp/ut/ov.json > /tmp/ut/ov_$$.json
go test -overlay=/tmp/ut/ov_$$.json -vet=off -c -o /tmp/ut/util_$$.test ./core/util/ || exit 1
cd core/util
: > $out
for t in $(/tmp/ut/util_$$.test -test.list '.*'); do
  if timeout 120 /tmp/ut/util_$$.test -test.run "^$t\$" -test.count=1 >/dev/null 2>&1; then echo "PASS $t" >> $out; else echo "FAIL $t" >> $out; fi
done
rm -f /tmp/ut/util_$$.test /tmp/ut/ov_$$.json
