#!/usr/bin/env python3
# Writes the Go parameter names (receiver first) into the head of every repository contract:
#   //@ func (*T).M returns (r)   ->   //@ func (*T).M(t, a, b) returns (r)
# so that contracts bind their parameters by position and survive a renaming in the code.
# For functions with loop contracts it also records the function's locals in declaration order
# (`//@   locals (...)`): a local renamed in the code is then found by its position.
# Input: the output of `bin/gocv params`. Idempotent. Re-run after a contract is added or after the
# code's declarations change on purpose (it re-synchronises the recorded names with the code).
import subprocess, collections
out = subprocess.run(['/verif/bin/gocv', 'params'], capture_output=True, text=True, cwd='/verif').stdout
by_file = collections.defaultdict(list)
for l in out.splitlines():
    f, line, key, names, locs = (l.split('\t') + [''])[:5]
    by_file[f].append((int(line), key, names, locs))
n = 0
for f, items in by_file.items():
    lines = open(f).read().split('\n')
    # bottom-up so that inserted lines do not shift the recorded line numbers
    for line, key, names, locs in sorted(items, reverse=True):
        t = lines[line - 1]
        head = '//@ func ' + key
        if not t.startswith(head):
            continue
        rest = t[len(head):]
        if names != '' and not rest.startswith('(') and (rest == '' or rest.startswith(' ')):
            lines[line - 1] = head + '(' + names + ')' + rest
            n += 1
        # functions with loop contracts also record their locals in declaration order
        if locs != '':
            new = '//@   locals (' + locs + ')'
            if line < len(lines) and lines[line].startswith('//@   locals ('):
                if lines[line] != new:
                    lines[line] = new
                    n += 1
            else:
                lines.insert(line, new)
                n += 1
    open(f, 'w').write('\n'.join(lines))
print('rewrote', n, 'contract heads / locals lines')
