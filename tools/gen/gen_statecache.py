#!/usr/bin/env python3
# Generates bounded/statecache/C07_model_test.go from C06_model_test.go: the same histories and model,
# plus the privacy observations of C07 at the two points marked in the source.
import re
src = open('/verif/bounded/statecache/C06_model_test.go').read()
src = src.replace('c06', 'c07').replace('TestGocvBoundedC06', 'TestGocvBoundedC07').replace('// property: C06', '// property: C07')
head = """// Bounded stand-in for the whole-history statement of C07 (writes are private until commit, values are
// never shared): GENERATED from C06_model_test.go by tools/gen/gen_statecache.py - the same histories
// and model, plus: before a transaction commits, its writes are invisible to the block cache and to a
// sibling transaction; before a block commits, its writes are invisible in the state cache under its
// hash; objects handed in and handed out are mutated by the caller throughout.
"""
src = src.replace('package statecache\n', 'package statecache\n\n' + head, 1)
p1 = """									if mode == 0 {
										// nothing of this transaction is visible outside it before its commit
										for _, k := range keys {
											if direct[k] {
												continue
											}
											want, present := expect(parent[b], k)
											sib := NewTransactionCache(bc)
											for how, get := range map[string]func(string) (Value, bool){"the block cache": bc.Get, "a sibling transaction": sib.Get} {
												if v, ok := get(k); ok {
													if cv, isVal := v.(*c07val); !isVal || !present || cv.s != want {
														fail(desc, "before the transaction of %s commits, %s sees key %s = %v (the chain below the block gives %q, present %v)", b, how, k, v, want, present)
													}
												}
											}
										}
									}
"""
p2 = """									// nothing of this block is visible in the state cache under its hash before its commit
									for _, k := range keys {
										if v, ok := sc.Get(k, b); ok {
											fail(desc, "before block %s commits, StateCache.Get(%s, %s) hits with %v", b, k, b, v)
										}
									}
"""
src = src.replace('									// @before-txn-commit\n', p1).replace('									// @before-block-commit\n', p2)
src = src.replace('hits compared with the model,', 'hits compared with the model; before a transaction / block commits its writes are invisible outside it;')
open('/verif/bounded/statecache/C07_model_test.go', 'w').write(src)
import os
os.system('gofmt -w /verif/bounded/statecache/C07_model_test.go')
