#!/usr/bin/env python3
# Generates the self-contained bounded stand-in tests of package wmpt from the shared helpers
# (wmpt_common.go.txt) and one body per property. Each generated file is overlaid alone.
import os
here = os.path.dirname(os.path.abspath(__file__))
common = open(os.path.join(here, 'wmpt_common.go.txt')).read()
imports = '''
import (
	"errors"
	"fmt"
	"os"
	"sort"
	"sync"
	"testing"

	"github.com/0chain/common/core/util/storage"
)

'''
def gen(prefix, body, out, extra_imports=''):
    b = open(os.path.join(here, body)).read()
    header, rest = b.split('//---BODY---\n', 1)
    imp = imports.replace('\t"testing"\n', '\t"testing"\n' + extra_imports)
    src = 'package wmpt\n\n' + header + imp + common.replace('@P@', prefix) + '\n' + rest
    open(out, 'w').write(src)
    os.system('gofmt -w ' + out)

gen('c11', 'c11_body.go.txt', '/verif/bounded/wmpt/C11_commit_gc_test.go')
gen('c09', 'c09_body.go.txt', '/verif/bounded/wmpt/C09_weights_test.go')
if os.path.exists(os.path.join(here, 'c13_body.go.txt')):
    gen('c13', 'c13_body.go.txt', '/verif/bounded/wmpt/C13_rollback_test.go')
if os.path.exists(os.path.join(here, 'c12_body.go.txt')):
    gen('c12', 'c12_body.go.txt', '/verif/bounded/wmpt/C12_path_export_test.go')
