package statecache

// Bounded stand-in for the whole-history statement of C07 (writes are private until commit, values are
// never shared): GENERATED from C06_model_test.go by tools/gen/gen_statecache.py - the same histories
// and model, plus: before a transaction commits, its writes are invisible to the block cache and to a
// sibling transaction; before a block commits, its writes are invisible in the state cache under its
// hash; objects handed in and handed out are mutated by the caller throughout.

// Bounded stand-in for the whole-history statement of C06 (a hit is the value most recently written
// along the block's own ancestor chain, a key removed on that chain misses): the contracts decide
// single calls against the Truth function; this check runs whole histories on the real caches and
// compares every observable lookup with an independent model.
//
// Three blocks B1, B2, B3 over a root B0 in two topologies (a chain, and a fork with B2 and B3 both on
// B1). Every block gets, for each of two keys, one of six write patterns (untouched, set v1, set v2,
// removed, set then removed, removed then set), realised through transaction caches (one transaction
// for the whole block, or one per write; a transaction that is never committed writes conflicting
// values; a transaction that only reads both keys before the writers is committed after them). The blocks are executed and committed one after the other in every order (a child before its
// parent leaves a gap; a block executed after its parent's commit reads the parent's values).
// After the last commit every (block, key) is looked up through StateCache.Get, QueryBlockCache and a
// transaction on top of the block, in two different orders (memoisation must not depend on it), twice.
// A miss is always acceptable (it is a cache); a hit must be the model's value and must not occur
// where the model says removed or never written.
// property: C07
// scope: 3 blocks x 2 topologies x 36 write patterns per block (2 keys x 6 patterns) x 6 commit orders x 2 realisations (quick: one realisation per case, alternating); all lookups in 2 orders, repeated

import (
	"fmt"
	"os"
	"testing"

	"github.com/0chain/common/core/logging"
	"go.uber.org/zap"
)

type c07val struct{ s string }

func (v *c07val) Clone() Value { return &c07val{s: v.s} }
func (v *c07val) CopyFrom(o interface{}) bool {
	if w, ok := o.(*c07val); ok {
		v.s = w.s
		return true
	}
	return false
}

// one write pattern of one key in one block: a list of writes ("" = remove)
var c07patterns = [][]string{nil, {"v1"}, {"v2"}, {""}, {"v1", ""}, {"", "v2"}}
var c07patternNames = []string{"untouched", "set v1", "set v2", "removed", "set v1 then removed", "removed then set v2"}

func TestGocvBoundedC07(t *testing.T) {
	logging.Logger = zap.NewNop()
	thorough := os.Getenv("VERIF_TIER") == "thorough"
	cases, fails := 0, 0
	fail := func(desc string, format string, a ...interface{}) {
		if fails < 5 {
			fmt.Printf("GOCV-FAIL %s: %s\n", desc, fmt.Sprintf(format, a...))
		}
		fails++
	}
	keys := []string{"a", "b"}
	blocks := []string{"B1", "B2", "B3"}
	topologies := map[string]map[string]string{
		"chain B0<-B1<-B2<-B3":    {"B1": "B0", "B2": "B1", "B3": "B2"},
		"fork B0<-B1<-B2, B1<-B3": {"B1": "B0", "B2": "B1", "B3": "B1"},
	}
	orders := [][]int{{0, 1, 2}, {0, 2, 1}, {1, 0, 2}, {1, 2, 0}, {2, 0, 1}, {2, 1, 0}}
	np := len(c07patterns)
	for tname, parent := range topologies {
		for p1 := 0; p1 < np*np; p1++ {
			for p2 := 0; p2 < np*np; p2++ {
				for p3 := 0; p3 < np*np; p3++ {
					pat := map[string][2]int{"B1": {p1 / np, p1 % np}, "B2": {p2 / np, p2 % np}, "B3": {p3 / np, p3 % np}}
					for oi, order := range orders {
						for mode := 0; mode < 2; mode++ {
							if (p1+p2+p3+oi)%2 != mode && !thorough {
								continue // quick: one realisation per case, alternating
							}
							cases++
							desc := fmt.Sprintf("%s, writes (key a, key b) B1=%v/%v B2=%v/%v B3=%v/%v, commit order %v, %s", tname,
								c07patternNames[pat["B1"][0]], c07patternNames[pat["B1"][1]], c07patternNames[pat["B2"][0]], c07patternNames[pat["B2"][1]], c07patternNames[pat["B3"][0]], c07patternNames[pat["B3"][1]],
								[]string{blocks[order[0]], blocks[order[1]], blocks[order[2]]}, []string{"one transaction per block", "one transaction per write"}[mode])
							func() {
								defer func() {
									if r := recover(); r != nil {
										fail(desc, "panic: %v", r)
									}
								}()
								sc := NewStateCache()
								// model: per block, per key: (written?, removed?, value)
								type entry struct {
									written, removed bool
									val              string
								}
								model := map[string]map[string]entry{}
								bcs := map[string]*BlockCache{}
								committed := map[string]bool{}
								expect := func(b, k string) (string, bool) {
									for cur := b; cur != "B0"; cur = parent[cur] {
										if !committed[cur] {
											return "", false
										}
										if e := model[cur][k]; e.written {
											if e.removed {
												return "", false
											}
											return e.val, true
										}
									}
									return "", false
								}
								// every block executes its transactions on top of what is committed at that moment, then commits
								for _, bi := range order {
									b := blocks[bi]
									bc, tc := NewBlockTxnCaches(sc, Block{Round: int64(bi + 1), Hash: b, PrevHash: parent[b]})
									bcs[b] = bc
									model[b] = map[string]entry{}
									// a transaction that only reads (before the others write) and is committed last
									reader := NewTransactionCache(bc)
									for _, k := range keys {
										if v, ok := reader.Get(k); ok {
											if cv, isVal := v.(*c07val); isVal {
												cv.s = "mutated-after-get"
											}
										}
									}
									// a transaction that is never committed writes conflicting values
									ghost := NewTransactionCache(bc)
									direct := map[string]bool{} // keys written on the block cache itself (visible there at once)
									for ki, k := range keys {
										ghost.Set(k, &c07val{s: "ghost"})
										for _, w := range c07patterns[pat[b][ki]] {
											if w == "" {
												tc.Remove(k)
												model[b][k] = entry{written: true, removed: true}
											} else {
												in := &c07val{s: w}
												if mode == 0 && ki == 1 && len(c07patterns[pat[b][ki]]) == 1 {
													bc.Set(k, in) // written on the block cache directly
													direct[k] = true
												} else {
													tc.Set(k, in)
												}
												in.s = "mutated-after-set" // the caller's object is its own
												model[b][k] = entry{written: true, val: w}
											}
											// the writer reads its own last write (a removal reads as a miss)
											if v, ok := tc.Get(k); ok {
												cv, isVal := v.(*c07val)
												if e := model[b][k]; !isVal || e.removed || cv.s != e.val {
													fail(desc, "in block %s the writing transaction reads key %s = %v right after writing %q (removed %v)", b, k, v, e.val, e.removed)
												} else {
													cv.s = "mutated-after-get"
												}
											} else if e := model[b][k]; !e.removed {
												fail(desc, "in block %s the writing transaction misses key %s right after setting it to %q", b, k, e.val)
											}
											if mode == 1 {
												tc.Commit()
												tc = NewTransactionCache(bc)
											}
										}
									}
									if mode == 0 {
										// nothing of this transaction is visible outside it before its commit
										for _, k := range keys {
											if direct[k] {
												continue
											}
											want, present := expect(parent[b], k)
											sib := NewTransactionCache(bc)
											for how, get := range map[string]func(string) (Value, bool){"the block cache": bc.Get, "a sibling transaction": sib.Get} {
												if v, ok := get(k); ok {
													if cv, isVal := v.(*c07val); !isVal || !present || cv.s != want {
														fail(desc, "before the transaction of %s commits, %s sees key %s = %v (the chain below the block gives %q, present %v)", b, how, k, v, want, present)
													}
												}
											}
										}
									}
									tc.Commit()
									reader.Commit()
									// after its transactions committed, the block cache answers with the block's own writes
									for _, k := range keys {
										e := model[b][k]
										if !e.written {
											continue
										}
										v, ok := bc.Get(k)
										if cv, isVal := v.(*c07val); ok && (!isVal || e.removed || cv.s != e.val) {
											fail(desc, "block cache of %s: key %s reads %v after its transactions committed; the block wrote %q (removed %v)", b, k, v, e.val, e.removed)
										} else if !ok && !e.removed {
											fail(desc, "block cache of %s: key %s misses after its transactions committed; the block wrote %q", b, k, e.val)
										}
									}
									// nothing of this block is visible in the state cache under its hash before its commit
									for _, k := range keys {
										if v, ok := sc.Get(k, b); ok {
											fail(desc, "before block %s commits, StateCache.Get(%s, %s) hits with %v", b, k, b, v)
										}
									}
									bc.Commit()
									committed[b] = true
								}
								bcs["B1"].Commit() // committing again changes nothing
								check := func(how, b, k string, v Value, ok bool) {
									want, present := expect(b, k)
									if !ok {
										return // a miss is always acceptable
									}
									got, isVal := v.(*c07val)
									if !isVal || got == nil {
										fail(desc, "%s: key %s at %s: hit with a value of type %T", how, k, b, v)
										return
									}
									if !present {
										fail(desc, "%s: key %s at %s: hit with %q, the model has no live value there (removed or never written on the chain)", how, k, b, got.s)
									} else if got.s != want {
										fail(desc, "%s: key %s at %s: hit with %q, the value most recently written along the chain is %q", how, k, b, got.s, want)
									}
									got.s = "mutated-after-get" // the returned object is the caller's own
								}
								type probe struct{ b, k string }
								var probes []probe
								for _, b := range blocks {
									for _, k := range keys {
										probes = append(probes, probe{b, k})
									}
								}
								for round := 0; round < 2; round++ {
									for i := range probes {
										p := probes[i]
										if (p1+p2+oi)%2 == 1 {
											p = probes[len(probes)-1-i]
										}
										v, ok := sc.Get(p.k, p.b)
										check("StateCache.Get", p.b, p.k, v, ok)
										v, ok = NewQueryBlockCache(sc, p.b).Get(p.k)
										check("QueryBlockCache.Get", p.b, p.k, v, ok)
										_, tc := NewBlockTxnCaches(sc, Block{Round: 9, Hash: "child-of-" + p.b, PrevHash: p.b})
										v, ok = tc.Get(p.k)
										check("transaction on top of the block", p.b, p.k, v, ok)
									}
								}
							}()
						}
					}
				}
			}
		}
	}
	fmt.Printf("GOCV-BOUNDED cases=%d failures=%d scope=\"3 blocks in a chain and in a fork; per block and key one of 6 write patterns (untouched, set, set other, removed, set+removed, removed+set) through transaction caches (one per block / one per write; an uncommitted transaction writes conflicting values; a transaction that only reads, before the writers, is committed after them); all 6 commit orders (gaps included), a repeated commit; every (block, key) looked up through StateCache.Get, QueryBlockCache and a transaction on top, in two orders, twice; hits compared with the model; a writer reads its own writes, the block cache the block's writes; callers mutate what they pass in and get back (thorough: both realisations for every case)\"\n", cases, fails)
	if fails > 0 {
		t.Fail()
	}
}
