package util

// Bounded stand-in for the whole-history part of C05 (not decided by the contracts): multi-round
// histories are executed on the real tries (block trie over a LevelNodeDB on a PNodeDB, child
// transaction tries merged with MergeMPTChanges, RecordDeadNodes + SaveChanges without immediate
// deletes). Checked: (a) no node a round reports dead (GetDeletes) is reachable from that round's
// resulting root or from the root of any later round; (b) for every prune version v,
// PruneBelowVersion(v) leaves every root saved at a version >= v fully readable from the store alone;
// (c) the same when the prune is cut at any of its writes (the store fails the k-th write and all later
// ones; batches are atomic) and then re-run.
// The persistent store is the in-memory grocksdb stand-in of /verif/stubs (atomic batches assumed).
// property: C05
// scope: three key families ({0a01,0a02,0b01,0b02}: every branch below an extension; {1111,2222,3133,3244}: leaves directly under the root branch; {12,1234,1256,34}: a value on a branch); round 1 = fixed content; round 2 = every sequence of <= 3 merged child transactions, each one operation (set one of 4 keys to one of 2 values, or delete it); round 3 = fixed transactions that re-create content deleted earlier; prune versions 1..4 with a crash at every write of the prune for sequences of <= 2 (quick) / <= 3 (thorough) transactions

import (
	"context"
	"fmt"
	"os"
	"sort"
	"testing"

	"github.com/0chain/common/core/logging"
	"github.com/0chain/common/core/statecache"
	"go.uber.org/zap"
)

func init() {
	logging.Logger = zap.NewNop()
	logging.N2n = zap.NewNop()
}

type c05op struct {
	key, val string // val "" = delete
	discard  bool
}

func (o c05op) String() string {
	s := "set " + o.key + "=" + o.val
	if o.val == "" {
		s = "del " + o.key
	}
	if o.discard {
		s += " (discarded)"
	}
	return s
}

type c05env struct {
	pndb   *PNodeDB
	roots  []Key
	models []map[string]string
}

func c05val(s string) *SecureSerializableValue { return &SecureSerializableValue{Buffer: []byte(s)} }

// round executes one round on top of the last saved root and returns the block trie (not yet saved)
func (e *c05env) round(version int, txns []c05op) (*MerklePatriciaTrie, map[string]string, error) {
	var prevRoot Key
	model := map[string]string{}
	if n := len(e.roots); n > 0 {
		prevRoot = e.roots[n-1]
		for k, v := range e.models[n-1] {
			model[k] = v
		}
	}
	ndb := NewLevelNodeDB(NewMemoryNodeDB(), e.pndb, false)
	block := NewMerklePatriciaTrie(ndb, Sequence(version), prevRoot, statecache.NewEmpty())
	for _, o := range txns {
		tdb := NewLevelNodeDB(NewMemoryNodeDB(), block.GetNodeDB(), false)
		txn := NewMerklePatriciaTrie(tdb, block.GetVersion(), block.GetRoot(), statecache.NewEmpty())
		if o.val == "" {
			if _, err := txn.Delete(Path(o.key)); err != nil {
				if _, present := model[o.key]; present {
					return nil, nil, fmt.Errorf("%v: %v", o, err)
				}
				continue // deleting an absent key fails the transaction: nothing to merge
			}
		} else if _, err := txn.Insert(Path(o.key), c05val(o.val)); err != nil {
			return nil, nil, fmt.Errorf("%v: %v", o, err)
		}
		if o.discard {
			continue
		}
		if err := block.MergeMPTChanges(txn); err != nil {
			return nil, nil, fmt.Errorf("merge %v: %v", o, err)
		}
		if o.val == "" {
			delete(model, o.key)
		} else {
			model[o.key] = o.val
		}
	}
	return block, model, nil
}

func (e *c05env) save(block *MerklePatriciaTrie, version int, model map[string]string) error {
	if err := e.pndb.RecordDeadNodes(block.GetDeletes(), int64(version)); err != nil {
		return err
	}
	if err := block.SaveChanges(context.Background(), e.pndb, false); err != nil {
		return err
	}
	e.roots = append(e.roots, block.GetRoot())
	e.models = append(e.models, model)
	return nil
}

// readable checks that a fresh trie on the store alone at root i reads exactly models[i]
func (e *c05env) readable(i int, keys []string) error {
	tr := NewMerklePatriciaTrie(e.pndb, Sequence(i+1), e.roots[i], statecache.NewEmpty())
	for _, k := range keys {
		v, err := tr.GetNodeValueRaw(Path(k))
		want, present := e.models[i][k]
		switch {
		case present && err != nil:
			return fmt.Errorf("root of round %d: read %s from the store alone: %v", i+1, k, err)
		case present && string(v) != want:
			return fmt.Errorf("root of round %d: %s reads %q, want %q", i+1, k, v, want)
		case !present && err == nil:
			return fmt.Errorf("root of round %d: %s reads %q, want absent", i+1, k, v)
		case !present && err != ErrValueNotPresent:
			return fmt.Errorf("root of round %d: absent key %s: %v", i+1, k, err)
		}
	}
	var got []string
	err := tr.Iterate(context.Background(), func(ctx context.Context, path Path, key Key, node Node) error {
		if node == nil {
			return fmt.Errorf("node %s at path %q is missing from the store", ToHex(key), string(path))
		}
		if _, isValue := node.(*ValueNode); isValue {
			got = append(got, string(path))
		}
		return nil
	}, NodeTypeLeafNode|NodeTypeFullNode|NodeTypeExtensionNode|NodeTypeValueNode)
	if err != nil {
		return fmt.Errorf("root of round %d: iterate: %v", i+1, err)
	}
	if len(got) != len(e.models[i]) {
		return fmt.Errorf("root of round %d: iteration visits %d values %v, want %d", i+1, len(got), got, len(e.models[i]))
	}
	for _, k := range got {
		if _, ok := e.models[i][k]; !ok {
			return fmt.Errorf("root of round %d: iteration visits %s, which is not in the content", i+1, k)
		}
	}
	if len(tr.GetMissingNodeKeys()) != 0 {
		return fmt.Errorf("root of round %d: missing nodes %d", i+1, len(tr.GetMissingNodeKeys()))
	}
	return nil
}

// reach returns the hashes of all nodes reachable from root i, read from the store alone
func (e *c05env) reach(i int) (map[string]bool, error) {
	tr := NewMerklePatriciaTrie(e.pndb, Sequence(i+1), e.roots[i], statecache.NewEmpty())
	out := map[string]bool{}
	err := tr.Iterate(context.Background(), func(ctx context.Context, path Path, key Key, node Node) error {
		if node == nil {
			return fmt.Errorf("node %s at path %q is missing from the store", ToHex(key), string(path))
		}
		if key != nil {
			out[ToHex(key)] = true
		}
		return nil
	}, NodeTypeLeafNode|NodeTypeFullNode|NodeTypeExtensionNode)
	return out, err
}

func TestGocvBoundedC05(t *testing.T) {
	// two key families: all keys under one shared first nibble (every branch sits below an
	// extension), and keys spread over the root branch (a lifted leaf stays live under the root)
	// and keys where one is a proper prefix of others (a value on a branch, overwritten in place)
	families := [][]string{{"0a01", "0a02", "0b01", "0b02"}, {"1111", "2222", "3133", "3244"}, {"12", "1234", "1256", "34"}}
	keys := families[0]
	vals := []string{"50", "60"}
	var ops []c05op
	depth, pruneDepth := 3, 2
	if os.Getenv("VERIF_TIER") == "thorough" {
		pruneDepth = 3
	}
	cases, fails := 0, 0
	fail := func(seq []c05op, format string, a ...interface{}) {
		if fails < 5 {
			fmt.Printf("GOCV-FAIL round 2 = %v: %s\n", seq, fmt.Sprintf(format, a...))
		}
		fails++
	}
	dir := t.TempDir()
	id := 0
	var round1, round3 []c05op
	// history runs the three rounds and checks (a); it returns the environment and the dead sets
	history := func(seq []c05op) (*c05env, error) {
		id++
		pndb, err := NewPNodeDB(fmt.Sprintf("%s/h%d/state", dir, id), fmt.Sprintf("%s/h%d/log", dir, id))
		if err != nil {
			return nil, err
		}
		e := &c05env{pndb: pndb}
		var dead []map[string]bool
		for r, txns := range [][]c05op{round1, seq, round3} {
			b, m, err := e.round(r+1, txns)
			if err != nil {
				return nil, err
			}
			d := map[string]bool{}
			for _, n := range b.GetDeletes() {
				d[n.GetHash()] = true
			}
			dead = append(dead, d)
			if err := e.save(b, r+1, m); err != nil {
				return nil, err
			}
			live, err := e.reach(r)
			if err != nil {
				return nil, fmt.Errorf("root of round %d: %v", r+1, err)
			}
			for q := 0; q <= r; q++ {
				for h := range dead[q] {
					if live[h] {
						return nil, fmt.Errorf("round %d reports node %s dead, but it is reachable from the root of round %d", q+1, h[:8], r+1)
					}
				}
			}
		}
		return e, nil
	}
	runSeq := func(seq []c05op) {
		cases++
		defer func() {
			if r := recover(); r != nil {
				fail(seq, "panic: %v", r)
			}
		}()
		if _, err := history(seq); err != nil {
			fail(seq, "%v", err)
			return
		}
		if len(seq) > pruneDepth {
			return
		}
		for v := 1; v <= 4; v++ {
			for k := -1; ; k++ { // k = -1: no crash
				e, err := history(seq)
				if err != nil {
					fail(seq, "%v", err)
					return
				}
				crashed := false
				if k >= 0 {
					e.pndb.db.FailAfter = e.pndb.db.Writes + k
					perr := e.pndb.PruneBelowVersion(context.Background(), int64(v))
					e.pndb.db.FailAfter = -1
					crashed = perr != nil
					if !crashed {
						break // k is past the end of the prune's write stream
					}
					for i := v - 1; i < len(e.roots); i++ {
						if i >= 0 {
							if err := e.readable(i, keys); err != nil {
								fail(seq, "PruneBelowVersion(%d) cut at write %d: %v", v, k, err)
								return
							}
						}
					}
				}
				if err := e.pndb.PruneBelowVersion(context.Background(), int64(v)); err != nil {
					fail(seq, "PruneBelowVersion(%d): %v", v, err)
					return
				}
				for i := v - 1; i < len(e.roots); i++ {
					if i >= 0 {
						if err := e.readable(i, keys); err != nil {
							fail(seq, "after PruneBelowVersion(%d)%s: %v", v, map[bool]string{true: fmt.Sprintf(" re-run after a cut at write %d", k), false: ""}[crashed], err)
							return
						}
					}
				}
				if k > 8 {
					fail(seq, "prune has more than 8 writes?")
					return
				}
			}
		}
	}
	var rec func(seq []c05op)
	rec = func(seq []c05op) {
		if len(seq) > 0 {
			runSeq(seq)
		}
		if len(seq) == depth {
			return
		}
		for _, o := range ops {
			rec(append(append([]c05op{}, seq...), o))
		}
	}
	for fi, fam := range families {
		keys = fam
		ops = nil
		for _, k := range keys {
			for _, v := range vals {
				ops = append(ops, c05op{key: k, val: v})
			}
			ops = append(ops, c05op{key: k})
		}
		if fi == 0 {
			round1 = []c05op{{key: keys[0], val: "10"}, {key: keys[1], val: "20"}, {key: keys[2], val: "30"}}
		} else {
			round1 = []c05op{{key: keys[0], val: "10"}, {key: keys[1], val: "20"}, {key: keys[2], val: "30"}, {key: keys[3], val: "40"}}
		}
		round3 = []c05op{{key: keys[3], val: "77"}, {key: keys[0]}, {key: keys[1], val: "20"}, {key: keys[0], val: "10"}}
		if fi == 2 {
			// restore round 1's values by plain overwrites (no delete in between)
			round1 = round1[:3]
			round3 = []c05op{{key: keys[0], val: "10"}, {key: keys[3], val: "77"}}
		}
		rec(nil)
	}
	sort.Strings(keys)
	fmt.Printf("GOCV-BOUNDED cases=%d failures=%d scope=\"3 rounds; round 2: all sequences of <= %d merged single-operation child transactions over three key families (fixed-length below an extension; leaves under the root branch; the last with a value on a branch: %v), values %v; round 3 re-creates deleted content / restores overwritten values; dead sets vs reachability at every later root; for sequences of <= %d transactions also PruneBelowVersion(1..4) with a cut at every write, re-run, reopen on the store alone\"\n", cases, fails, depth, keys, vals, pruneDepth)
	if fails > 0 {
		t.Fail()
	}
}
