package util

// Bounded stand-in for the round-trip half of C14 (encode/decode is string-level reasoning over the
// ':'-separated format, outside the solver's reach): node shapes are enumerated and, for each,
// (1) decoding its encoding gives a node with the same hash and the same encoding, (2) cloning keeps
// hash and encoding, (3) after PutNode under its hash into the memory, layered and persistent stores
// GetNode returns a node with that hash. Then whole tries built from operation histories are read
// back from each store kind and must re-compute to the root they were saved under.
// property: C14
// scope: leaf/extension paths from {"", "1", "0a", "3a3a" (hex of ':'), 31 nibbles}, values from {nil, empty, "v", ":", "a:b::", "\x00\xff:\n", 300 bytes}, branches with every child subset of size 0,1,2,16 over positions {0,9,10,15} (and all 16), with and without value, origins {0,1,1<<40}, versions equal to the origin and bumped by 4/5/8 after creation; a leaf and a branch with the largest value Insert admits (10 MiB and one byte less); tries: all histories of <= 3 inserts/deletes over 5 paths

import (
	"bytes"
	"context"
	"fmt"
	"testing"

	"github.com/0chain/common/core/logging"
	"github.com/0chain/common/core/statecache"
	"go.uber.org/zap"
)

func init() {
	logging.Logger = zap.NewNop()
	logging.N2n = zap.NewNop()
}

func TestGocvBoundedC14(t *testing.T) {
	cases, fails := 0, 0
	fail := func(format string, a ...interface{}) {
		if fails < 5 {
			fmt.Printf("GOCV-FAIL %s\n", fmt.Sprintf(format, a...))
		}
		fails++
	}
	dir := t.TempDir()
	pndb, err := NewPNodeDB(dir+"/state", dir+"/log")
	if err != nil {
		t.Fatal(err)
	}
	mem := NewMemoryNodeDB()
	lvl := NewLevelNodeDB(NewMemoryNodeDB(), NewMemoryNodeDB(), false)
	stores := map[string]NodeDB{"memory": mem, "layered": lvl, "persistent": pndb}
	check := func(desc string, n Node) {
		cases++
		defer func() {
			if r := recover(); r != nil {
				fail("%s: panic: %v", desc, r)
			}
		}()
		h := n.GetHashBytes()
		enc := n.Encode()
		dec, err := CreateNode(bytes.NewReader(enc))
		if err != nil {
			fail("%s: decoding its own encoding fails: %v", desc, err)
			return
		}
		if !bytes.Equal(dec.GetHashBytes(), h) {
			fail("%s: decode(encode(n)) has hash %x, n has %x", desc, dec.GetHashBytes(), h)
		}
		if !bytes.Equal(dec.Encode(), enc) {
			fail("%s: decode(encode(n)) encodes differently", desc)
		}
		if dec.GetOrigin() != n.GetOrigin() || dec.GetVersion() != n.GetVersion() {
			fail("%s: decode(encode(n)) has origin %d version %d, n has origin %d version %d", desc, dec.GetOrigin(), dec.GetVersion(), n.GetOrigin(), n.GetVersion())
		}
		cl := n.CloneNode()
		if !bytes.Equal(cl.GetHashBytes(), h) || !bytes.Equal(cl.Encode(), enc) {
			fail("%s: CloneNode changes hash or encoding", desc)
		}
		// the copy operations the state cache uses (Clone / CopyFrom by encode-decode)
		if sv, ok := n.(statecache.Value); ok {
			c2, ok := sv.Clone().(Node)
			if !ok || !bytes.Equal(c2.GetHashBytes(), h) || !bytes.Equal(c2.Encode(), enc) {
				fail("%s: Clone changes hash or encoding", desc)
			}
			var dst statecache.Value
			switch n.(type) {
			case *ValueNode:
				dst = NewValueNode()
			case *LeafNode:
				dst = NewLeafNode(Path("0f"), Path("0f"), 99, &SecureSerializableValue{Buffer: []byte("other")})
			case *FullNode:
				fo := NewFullNode(&SecureSerializableValue{Buffer: []byte("other")})
				fo.Children[5] = bytes.Repeat([]byte{0x77}, 32)
				dst = fo
			case *ExtensionNode:
				dst = NewExtensionNode(Path("0f"), bytes.Repeat([]byte{0x77}, 32))
			}
			if dst != nil {
				if !dst.CopyFrom(n) {
					fail("%s: CopyFrom into a node of the same kind reports false", desc)
				} else if dn := dst.(Node); !bytes.Equal(dn.GetHashBytes(), h) || !bytes.Equal(dn.Encode(), enc) {
					fail("%s: after CopyFrom the destination has hash %x, the source %x", desc, dn.GetHashBytes(), h)
				}
			}
		}
		if _, isValue := n.(*ValueNode); isValue {
			return // value nodes are embedded, not stored on their own
		}
		for name, db := range stores {
			// batch interface as well (every other node, so that both entry points are used)
			if cases%2 == 0 {
				if err := db.MultiPutNode([]Key{h}, []Node{n}); err != nil {
					fail("%s: MultiPutNode into the %s store: %v", desc, name, err)
					continue
				}
				gots, err := db.MultiGetNode([]Key{h})
				if err != nil || len(gots) != 1 || gots[0] == nil {
					fail("%s: MultiGetNode from the %s store: %v (%d nodes)", desc, name, err, len(gots))
					continue
				}
				if !bytes.Equal(gots[0].GetHashBytes(), h) || !bytes.Equal(gots[0].Encode(), enc) {
					fail("%s: node read back (MultiGetNode) from the %s store under key %x re-computes to %x", desc, name, h, gots[0].GetHashBytes())
				}
				continue
			}
			if err := db.PutNode(h, n); err != nil {
				fail("%s: PutNode into the %s store: %v", desc, name, err)
				continue
			}
			got, err := db.GetNode(h)
			if err != nil {
				fail("%s: GetNode from the %s store: %v", desc, name, err)
				continue
			}
			if !bytes.Equal(got.GetHashBytes(), h) {
				fail("%s: node read back from the %s store under key %x re-computes to %x", desc, name, h, got.GetHashBytes())
			}
			if !bytes.Equal(got.Encode(), enc) {
				fail("%s: node read back from the %s store encodes differently", desc, name)
			}
		}
	}
	long := bytes.Repeat([]byte("x:"), 150)
	values := []MPTSerializable{nil, &SecureSerializableValue{Buffer: []byte{}}, &SecureSerializableValue{Buffer: []byte("v")}, &SecureSerializableValue{Buffer: []byte(":")},
		&SecureSerializableValue{Buffer: []byte("a:b::")}, &SecureSerializableValue{Buffer: []byte("\x00\xff:\n")}, &SecureSerializableValue{Buffer: long}}
	paths := []string{"", "1", "0a", "3a3a", "0123456789abcdef0123456789abcde"}
	origins := []Sequence{0, 1, 1 << 40}
	key := func(b byte) Key { return bytes.Repeat([]byte{b}, 32) }
	// versions: a node's version is bumped after creation by the mark phase of pruning, so origin and
	// version differ in stored nodes; both orders are exercised
	bump := func(n Node, o Sequence, d int) string {
		if d == 0 {
			return ""
		}
		n.SetVersion(o + Sequence(d))
		return fmt.Sprintf(", version %d", int64(o)+int64(d))
	}
	for _, o := range origins {
		for vi, v := range values {
			d := (vi % 3) * 4 // 0, 4, 8: some nodes keep version == origin
			vn := NewValueNode()
			vn.SetValue(v)
			vn.SetOrigin(o)
			check(fmt.Sprintf("value node (value #%d, origin %d%s)", vi, o, bump(vn, o, d)), vn)
			for _, p := range paths {
				for _, pre := range []string{"", "0a"} {
					ln := NewLeafNode(Path(pre), Path(p), o, v)
					check(fmt.Sprintf("leaf (prefix %q, path %q, value #%d, origin %d%s)", pre, p, vi, o, bump(ln, o, d)), ln)
				}
			}
			positions := []int{0, 9, 10, 15}
			for mask := 0; mask < 1<<len(positions); mask++ {
				fn := NewFullNode(v)
				fn.SetOrigin(o)
				for i, pos := range positions {
					if mask&(1<<i) != 0 {
						fn.Children[pos] = key(byte(0x3a + pos)) // 0x3a = ':'
					}
				}
				check(fmt.Sprintf("branch (children mask %04b over {0,9,10,15}, value #%d, origin %d%s)", mask, vi, o, bump(fn, o, d)), fn)
			}
			all := NewFullNode(v)
			all.SetOrigin(o)
			for pos := 0; pos < 16; pos++ {
				all.Children[pos] = key(byte(pos))
			}
			check(fmt.Sprintf("branch (all 16 children, value #%d, origin %d)", vi, o), all)
		}
		for _, p := range paths {
			if p == "" {
				continue
			}
			en := NewExtensionNode(Path(p), key(0x3a))
			en.SetOrigin(o)
			check(fmt.Sprintf("extension (path %q, origin %d%s)", p, o, bump(en, o, 5)), en)
		}
	}
	// the largest value Insert admits (MPTMaxAllowableNodeSize bytes, and one byte less): the encoded node
	// is larger than the value by header, path, separators and child slots
	for _, sz := range []int{MPTMaxAllowableNodeSize, MPTMaxAllowableNodeSize - 1} {
		big := &SecureSerializableValue{Buffer: bytes.Repeat([]byte{0x5a}, sz)}
		check(fmt.Sprintf("leaf (64-nibble path, value of %d bytes)", sz), NewLeafNode(Path(""), Path("0123456789abcdef0123456789abcdef0123456789abcdef0123456789abcdef"), 1, big))
		bfn := NewFullNode(big)
		bfn.SetOrigin(1)
		bfn.Children[3] = key(0x11)
		bfn.Children[12] = key(0x22)
		check(fmt.Sprintf("branch (2 children, value of %d bytes)", sz), bfn)
	}
	// whole tries: every history, read back from each store kind alone
	tpaths := []string{"", "12", "1234", "12ab", "5678"}
	type op struct {
		del  bool
		path string
	}
	var ops []op
	for _, p := range tpaths {
		ops = append(ops, op{false, p}, op{true, p})
	}
	nid := 0
	var rec func(seq []op)
	rec = func(seq []op) {
		if len(seq) > 0 {
			cases++
			func() {
				defer func() {
					if r := recover(); r != nil {
						fail("history %v: panic: %v", seq, r)
					}
				}()
				nid++
				p2, err := NewPNodeDB(fmt.Sprintf("%s/t%d/s", dir, nid), fmt.Sprintf("%s/t%d/l", dir, nid))
				if err != nil {
					fail("setup: %v", err)
					return
				}
				for name, db := range map[string]NodeDB{"memory": NewMemoryNodeDB(), "layered": NewLevelNodeDB(NewMemoryNodeDB(), NewMemoryNodeDB(), false), "persistent": p2} {
					tr := NewMerklePatriciaTrie(db, 3, nil, statecache.NewEmpty())
					for _, o := range seq {
						if o.del {
							_, _ = tr.Delete(Path(o.path))
						} else {
							_, _ = tr.Insert(Path(o.path), &SecureSerializableValue{Buffer: []byte("a:b")})
						}
					}
					if name == "persistent" {
						if err := tr.SaveChanges(context.Background(), db, false); err != nil {
							fail("history %v: save: %v", seq, err)
						}
					}
					root := tr.GetRoot()
					if len(root) == 0 {
						continue
					}
					re := NewMerklePatriciaTrie(db, 3, root, statecache.NewEmpty())
					err := re.Iterate(context.Background(), func(ctx context.Context, path Path, key Key, node Node) error {
						if node == nil {
							return fmt.Errorf("node %x at %q missing", key, string(path))
						}
						if key != nil && !bytes.Equal(node.GetHashBytes(), key) {
							return fmt.Errorf("node read under key %x at %q re-computes to %x", key, string(path), node.GetHashBytes())
						}
						return nil
					}, NodeTypeLeafNode|NodeTypeFullNode|NodeTypeExtensionNode)
					if err != nil {
						fail("history %v read back from the %s store: %v", seq, name, err)
					}
				}
				// the same history with every operation at its own version and in its own store level (a new
				// trie object with a fresh cache each time, as block after block does); the caller formats
				// each path into one scratch buffer and wipes it after the call. Afterwards every level's own
				// store must still hold each node under the hash of its content, and every earlier root
				// must still be readable through its level.
				type lvl struct {
					own  *MemoryNodeDB
					db   NodeDB
					root Key
				}
				base := NewMemoryNodeDB()
				levels := []lvl{{own: base, db: base}}
				scratch := make([]byte, 0, 16)
				for i, o := range seq {
					prev := levels[len(levels)-1]
					own := NewMemoryNodeDB()
					db := NewLevelNodeDB(own, prev.db, false)
					tr := NewMerklePatriciaTrie(db, Sequence(3+i), prev.root, statecache.NewEmpty())
					scratch = append(scratch[:0], o.path...)
					if o.del {
						_, _ = tr.Delete(Path(scratch))
					} else {
						_, _ = tr.Insert(Path(scratch), &SecureSerializableValue{Buffer: []byte("a:b")})
					}
					for j := range scratch {
						scratch[j] = 'f'
					}
					levels = append(levels, lvl{own: own, db: db, root: tr.GetRoot()})
				}
				for li, l := range levels {
					_ = l.own.Iterate(context.Background(), func(ctx context.Context, key Key, node Node) error {
						if !bytes.Equal(node.GetHashBytes(), key) {
							fail("history %v, one level and version per operation: level %d holds a %T under key %x that re-computes to %x (origin %d)", seq, li, node, key, node.GetHashBytes(), node.GetOrigin())
						}
						return nil
					})
					if len(l.root) == 0 {
						continue
					}
					re := NewMerklePatriciaTrie(l.db, Sequence(3+li), l.root, statecache.NewEmpty())
					err := re.Iterate(context.Background(), func(ctx context.Context, path Path, key Key, node Node) error {
						if node == nil {
							return fmt.Errorf("node %x at %q missing", key, string(path))
						}
						if key != nil && !bytes.Equal(node.GetHashBytes(), key) {
							return fmt.Errorf("node read under key %x at %q re-computes to %x", key, string(path), node.GetHashBytes())
						}
						return nil
					}, NodeTypeLeafNode|NodeTypeFullNode|NodeTypeExtensionNode)
					if err != nil {
						fail("history %v, one level and version per operation: the root after operation %d read back through its level: %v", seq, li, err)
					}
				}
			}()
		}
		if len(seq) == 3 {
			return
		}
		for _, o := range ops {
			rec(append(append([]op{}, seq...), o))
		}
	}
	rec(nil)
	fmt.Printf("GOCV-BOUNDED cases=%d failures=%d scope=\"node shapes: 7 values x 5 paths x 2 prefixes x 3 origins leaves, 17 child subsets x 7 values x 3 origins branches, extensions, value nodes, plus a leaf and a branch carrying the largest admissible value (MPTMaxAllowableNodeSize bytes and one less): decode(encode) / CloneNode / Clone / CopyFrom / put+get and batch put+get in memory, layered, persistent stores; tries: all histories of <= 3 operations over %v re-read from each store kind, and once more with one store level, one version and a fresh trie object per operation (paths passed in a scratch buffer that is wiped after each call): every level keeps each node under its own hash, every earlier root stays readable\"\n", cases, fails, tpaths)
	if fails > 0 {
		t.Fail()
	}
}
