package util

// Bounded stand-in for the whole-history part of C04 (not decided by the contracts): multi-round
// histories are executed on the real tries (block trie over a LevelNodeDB on a PNodeDB, child
// transaction tries merged with MergeMPTChanges or discarded, RecordDeadNodes + SaveChanges without
// immediate deletes) and, after every save, a fresh trie opened on the persistent store alone must
// read exactly the model content at every root saved so far (lookups of all keys and a full
// iteration, no missing node). Crash points: every prefix of the round's write stream (the store
// fails the k-th write and all later ones; batches are atomic); afterwards every previously saved
// root must be intact, and re-executing and re-saving the round must give the complete state.
// The persistent store is the in-memory grocksdb stand-in of /verif/stubs (atomic batches assumed).
// property: C04
// scope: round 1 = fixed content {0a01,0a02,0b01}; round 2 = every sequence of <= 3 child transactions, each one operation (set one of 4 keys to one of 2 values, or delete it), merged (quick) / merged or discarded (thorough); round 3 = one fixed transaction on top; crash at every write of round 2's save

import (
	"context"
	"fmt"
	"os"
	"strings"
	"testing"

	"github.com/0chain/common/core/logging"
	"github.com/0chain/common/core/statecache"
	"go.uber.org/zap"
)

func init() {
	logging.Logger = zap.NewNop()
	logging.N2n = zap.NewNop()
}

type c04op struct {
	key, val string // val "" = delete
	discard  bool
}

func (o c04op) String() string {
	s := "set " + o.key + "=" + o.val
	if len(o.val) > 32 {
		s = fmt.Sprintf("set %s=<%d bytes>", o.key, len(o.val))
	}
	if o.val == "" {
		s = "del " + o.key
	}
	if o.discard {
		s += " (discarded)"
	}
	return s
}

type c04env struct {
	pndb   *PNodeDB
	roots  []Key
	models []map[string]string
}

var c04big = strings.Repeat("Z", MPTMaxAllowableNodeSize)

func c04val(s string) *SecureSerializableValue { return &SecureSerializableValue{Buffer: []byte(s)} }

// round executes one round on top of the last saved root and returns the block trie (not yet saved)
func (e *c04env) round(version int, txns []c04op) (*MerklePatriciaTrie, map[string]string, error) {
	var prevRoot Key
	model := map[string]string{}
	if n := len(e.roots); n > 0 {
		prevRoot = e.roots[n-1]
		for k, v := range e.models[n-1] {
			model[k] = v
		}
	}
	ndb := NewLevelNodeDB(NewMemoryNodeDB(), e.pndb, false)
	block := NewMerklePatriciaTrie(ndb, Sequence(version), prevRoot, statecache.NewEmpty())
	for _, o := range txns {
		tdb := NewLevelNodeDB(NewMemoryNodeDB(), block.GetNodeDB(), false)
		txn := NewMerklePatriciaTrie(tdb, block.GetVersion(), block.GetRoot(), statecache.NewEmpty())
		if o.val == "" {
			if _, err := txn.Delete(Path(o.key)); err != nil {
				if _, present := model[o.key]; present {
					return nil, nil, fmt.Errorf("%v: %v", o, err)
				}
				continue // deleting an absent key fails the transaction: nothing to merge
			}
		} else if _, err := txn.Insert(Path(o.key), c04val(o.val)); err != nil {
			return nil, nil, fmt.Errorf("%v: %v", o, err)
		}
		if o.discard {
			continue
		}
		if err := block.MergeMPTChanges(txn); err != nil {
			return nil, nil, fmt.Errorf("merge %v: %v", o, err)
		}
		if o.val == "" {
			delete(model, o.key)
		} else {
			model[o.key] = o.val
		}
	}
	return block, model, nil
}

func (e *c04env) save(block *MerklePatriciaTrie, version int, model map[string]string) error {
	if err := e.pndb.RecordDeadNodes(block.GetDeletes(), int64(version)); err != nil {
		return err
	}
	if err := block.SaveChanges(context.Background(), e.pndb, false); err != nil {
		return err
	}
	e.roots = append(e.roots, block.GetRoot())
	e.models = append(e.models, model)
	return nil
}

// readable checks that a fresh trie on the store alone at root i reads exactly models[i]
func (e *c04env) readable(i int, keys []string) error {
	tr := NewMerklePatriciaTrie(e.pndb, Sequence(i+1), e.roots[i], statecache.NewEmpty())
	for _, k := range keys {
		v, err := tr.GetNodeValueRaw(Path(k))
		want, present := e.models[i][k]
		switch {
		case present && err != nil:
			return fmt.Errorf("root of round %d: read %s from the store alone: %v", i+1, k, err)
		case present && string(v) != want:
			return fmt.Errorf("root of round %d: %s reads %d bytes %.20q, want %d bytes %.20q", i+1, k, len(v), v, len(want), want)
		case !present && err == nil:
			return fmt.Errorf("root of round %d: %s reads %q, want absent", i+1, k, v)
		case !present && err != ErrValueNotPresent:
			return fmt.Errorf("root of round %d: absent key %s: %v", i+1, k, err)
		}
	}
	var got []string
	err := tr.Iterate(context.Background(), func(ctx context.Context, path Path, key Key, node Node) error {
		if node == nil {
			return fmt.Errorf("node %s at path %q is missing from the store", ToHex(key), string(path))
		}
		if _, isValue := node.(*ValueNode); isValue {
			got = append(got, string(path))
		}
		return nil
	}, NodeTypeLeafNode|NodeTypeFullNode|NodeTypeExtensionNode|NodeTypeValueNode)
	if err != nil {
		return fmt.Errorf("root of round %d: iterate: %v", i+1, err)
	}
	if len(got) != len(e.models[i]) {
		return fmt.Errorf("root of round %d: iteration visits %d values %v, want %d", i+1, len(got), got, len(e.models[i]))
	}
	for _, k := range got {
		if _, ok := e.models[i][k]; !ok {
			return fmt.Errorf("root of round %d: iteration visits %s, which is not in the content", i+1, k)
		}
	}
	if len(tr.GetMissingNodeKeys()) != 0 {
		return fmt.Errorf("root of round %d: missing nodes %d", i+1, len(tr.GetMissingNodeKeys()))
	}
	return nil
}

func TestGocvBoundedC04(t *testing.T) {
	// two key families: fixed-length keys, and keys where one is a prefix of others (a value on a branch)
	c04family(t, []string{"0a01", "0a02", "0b01", "0b02"}, "fixed-length keys")
	c04family(t, []string{"12", "1234", "1256", "34"}, "prefix-related keys")
	fmt.Printf("GOCV-BOUNDED cases=%d failures=%d scope=\"two key families ({0a01,0a02,0b01,0b02}; {12,1234,1256,34} with a value on a branch); 3 rounds; round 2: all sequences of <= 3 single-operation child transactions (2 values, delete), merged (thorough: or discarded); crash at every write of round 2's RecordDeadNodes+SaveChanges stream; plus rounds storing a value of MPTMaxAllowableNodeSize bytes; reopen on the store alone at every saved root\"\n", c04cases, c04fails)
	if c04fails > 0 {
		t.Fail()
	}
}

var c04cases, c04fails int

func c04family(t *testing.T, keys []string, famName string) {
	vals := []string{"50", "60"}
	var ops []c04op
	for _, k := range keys {
		for _, v := range vals {
			ops = append(ops, c04op{key: k, val: v})
		}
		ops = append(ops, c04op{key: k})
	}
	thorough := os.Getenv("VERIF_TIER") == "thorough"
	if thorough {
		n := len(ops)
		for i := 0; i < n; i++ {
			o := ops[i]
			o.discard = true
			ops = append(ops, o)
		}
	}
	fail := func(seq []c04op, format string, a ...interface{}) {
		if c04fails < 5 {
			fmt.Printf("GOCV-FAIL %s, round 2 = %v: %s\n", famName, seq, fmt.Sprintf(format, a...))
		}
		c04fails++
	}
	dir := t.TempDir()
	newEnv := func(tag string) (*c04env, error) {
		pndb, err := NewPNodeDB(fmt.Sprintf("%s/%s/state", dir, tag), fmt.Sprintf("%s/%s/log", dir, tag))
		if err != nil {
			return nil, err
		}
		e := &c04env{pndb: pndb}
		b, m, err := e.round(1, []c04op{{key: keys[0], val: "10"}, {key: keys[1], val: "20"}, {key: keys[2], val: "30"}})
		if err != nil {
			return nil, err
		}
		return e, e.save(b, 1, m)
	}
	id := 0
	runSeq := func(seq []c04op) {
		c04cases++
		defer func() {
			if r := recover(); r != nil {
				fail(seq, "panic: %v", r)
			}
		}()
		id++
		e, err := newEnv(fmt.Sprintf("n%d", id))
		if err != nil {
			fail(seq, "setup: %v", err)
			return
		}
		b, m, err := e.round(2, seq)
		if err != nil {
			fail(seq, "round 2: %v", err)
			return
		}
		wantRoot := b.GetRoot()
		// crash points: the save of round 2 fails at its k-th write
		for k := 0; ; k++ {
			id++
			ec, err := newEnv(fmt.Sprintf("c%d", id))
			if err != nil {
				fail(seq, "setup: %v", err)
				return
			}
			bc, mc, err := ec.round(2, seq)
			if err != nil {
				fail(seq, "round 2 (crash run): %v", err)
				return
			}
			ec.pndb.db.FailAfter = ec.pndb.db.Writes + k
			serr := ec.save(bc, 2, mc)
			ec.pndb.db.FailAfter = -1
			if serr == nil {
				break // k is past the end of the write stream
			}
			if err := ec.readable(0, keys); err != nil {
				fail(seq, "crash at write %d of the save damaged an earlier root: %v", k, err)
				return
			}
			// restart: re-execute the round on the store and save again
			br, mr, err := ec.round(2, seq)
			if err != nil {
				fail(seq, "crash at write %d: re-executing the round: %v", k, err)
				return
			}
			if err := ec.save(br, 2, mr); err != nil {
				fail(seq, "crash at write %d: re-saving the round: %v", k, err)
				return
			}
			if string(br.GetRoot()) != string(wantRoot) {
				fail(seq, "crash at write %d: re-executed round has a different root", k)
				return
			}
			for i := range ec.roots {
				if err := ec.readable(i, keys); err != nil {
					fail(seq, "after crash at write %d and re-save: %v", k, err)
					return
				}
			}
			if k > 8 {
				fail(seq, "save has more than 8 writes?")
				return
			}
		}
		if err := e.save(b, 2, m); err != nil {
			fail(seq, "save: %v", err)
			return
		}
		for i := range e.roots {
			if err := e.readable(i, keys); err != nil {
				fail(seq, "after saving round 2: %v", err)
				return
			}
		}
		b3, m3, err := e.round(3, []c04op{{key: keys[3], val: "77"}, {key: keys[0]}})
		if err != nil {
			fail(seq, "round 3 on the saved root: %v", err)
			return
		}
		if err := e.save(b3, 3, m3); err != nil {
			fail(seq, "save of round 3: %v", err)
			return
		}
		for i := range e.roots {
			if err := e.readable(i, keys); err != nil {
				fail(seq, "after saving round 3: %v", err)
				return
			}
		}
	}
	var rec func(seq []c04op)
	rec = func(seq []c04op) {
		if len(seq) > 0 {
			runSeq(seq)
		}
		if len(seq) == 3 {
			return
		}
		for _, o := range ops {
			rec(append(append([]c04op{}, seq...), o))
		}
	}
	rec(nil)
	// a round that stores the largest value Insert admits (the encoded leaf is larger than the value)
	runSeq([]c04op{{key: keys[1], val: c04big}})
	runSeq([]c04op{{key: keys[3], val: c04big}, {key: keys[0], val: "50"}})
}
