package util

// Bounded stand-in for the history-independence half of C02 (the contracts prove the canonical
// shape of every node handed to the store, not the equality of roots across histories): every
// history of up to 4 inserts / deletes over prefix-related paths is run, and its root is compared
// with the root of a trie built directly (sorted inserts) from the same final content.
// property: C02
// scope: paths {3456, 3457, 9, a34567, a34568, a9, b0, 12, 1234, 1256}; all histories of <= 4 insert/delete operations (deletes of live keys only); memory store, one version

import (
	"fmt"
	"sort"
	"testing"

	"github.com/0chain/common/core/logging"
	"github.com/0chain/common/core/statecache"
	"go.uber.org/zap"
)

func init() {
	logging.Logger = zap.NewNop()
	logging.N2n = zap.NewNop()
}

func c02btrie() *MerklePatriciaTrie {
	sc := statecache.NewStateCache()
	_, tc := statecache.NewBlockTxnCaches(sc, statecache.Block{})
	return NewMerklePatriciaTrie(NewMemoryNodeDB(), 1, nil, tc)
}

func TestGocvBoundedC02(t *testing.T) {
	cases := 0
	paths := []string{"3456", "3457", "9", "a34567", "a34568", "a9", "b0", "12", "1234", "1256"}
	type op struct {
		del  bool
		path string
	}
	var ops []op
	for _, p := range paths {
		ops = append(ops, op{false, p}, op{true, p})
	}
	fails := 0
	var run func(seq []op, live map[string]bool)
	run = func(seq []op, live map[string]bool) {
		if len(seq) > 0 {
			cases++
			func() {
				defer func() {
					if r := recover(); r != nil {
						if fails < 3 {
							fmt.Printf("GOCV-PANIC %v after %v\n", r, seq)
						}
						fails++
					}
				}()
				tr := c02btrie()
				for _, o := range seq {
					if o.del {
						_, _ = tr.Delete(Path(o.path))
					} else {
						_, _ = tr.Insert(Path(o.path), &SecureSerializableValue{Buffer: []byte("v")})
					}
				}
				var keys []string
				for k := range live {
					keys = append(keys, k)
				}
				sort.Strings(keys)
				direct := c02btrie()
				for _, k := range keys {
					_, _ = direct.Insert(Path(k), &SecureSerializableValue{Buffer: []byte("v")})
				}
				if string(tr.GetRoot()) != string(direct.GetRoot()) {
					if fails < 3 {
						fmt.Printf("GOCV-FAIL root depends on history: %v gives root %x, direct construction of %v gives %x\n", seq, tr.GetRoot(), keys, direct.GetRoot())
					}
					fails++
				}
			}()
		}
		if len(seq) == 4 {
			return
		}
		for _, o := range ops {
			nl := map[string]bool{}
			for k := range live {
				nl[k] = true
			}
			if o.del {
				if !live[o.path] {
					continue
				}
				delete(nl, o.path)
			} else {
				if live[o.path] {
					continue
				}
				nl[o.path] = true
			}
			run(append(append([]op{}, seq...), o), nl)
		}
	}
	run(nil, map[string]bool{})
	if fails > 0 {
		t.Fail()
	}
	fmt.Printf("GOCV-BOUNDED cases=%d failures=%d scope=\"all histories of <= 4 inserts/deletes over %v: root equals the root of the trie built directly from the final content\"\n", cases, fails, paths)
}
