package util

// Bounded stand-in for the history-independence half of C02 (the contracts prove the canonical
// shape of every node handed to the store, not the equality of roots across histories): every
// history of up to 4 inserts / deletes over prefix-related paths is run, and its root is compared
// with the root of a trie built directly (sorted inserts) from the same final content, and with an
// independent re-computation of the root from the sorted content following the published node-hash
// format (sha3-256 over the little-endian origin and the ':'-separated field encoding; written by a
// sub-agent that saw only the property text).
// property: C02
// scope: paths {3456, 3457, 9, a34567, a34568, a9, b0, 12, 1234, 1256, 1, 1abc, 2def} (odd and even lengths, keys that end exactly at a branch slot); all histories of <= 4 insert/delete operations (deletes of live keys only); memory store, one version

import (
	"bytes"
	"encoding/binary"
	"encoding/hex"
	"fmt"
	"sort"
	"testing"

	"github.com/0chain/common/core/logging"
	"github.com/0chain/common/core/statecache"
	"go.uber.org/zap"
	"golang.org/x/crypto/sha3"
)

func init() {
	logging.Logger = zap.NewNop()
	logging.N2n = zap.NewNop()
}

func c02btrie() *MerklePatriciaTrie {
	sc := statecache.NewStateCache()
	_, tc := statecache.NewBlockTxnCaches(sc, statecache.Block{})
	return NewMerklePatriciaTrie(NewMemoryNodeDB(), 1, nil, tc)
}

// independent re-computation of the root of the canonical trie for a content, following the
// published node-hash format: sha3-256(origin little-endian int64 || field encoding)
type c02refKV struct {
	path  string // remaining path below the current position
	value []byte
}

func c02refHash(origin int64, enc []byte) []byte {
	buf := bytes.NewBuffer(nil)
	_ = binary.Write(buf, binary.LittleEndian, origin)
	buf.Write(enc)
	h := sha3.Sum256(buf.Bytes())
	return h[:]
}

func c02refRefRoot(origin int64, prefix string, kvs []c02refKV) []byte {
	if len(kvs) == 0 {
		return nil
	}
	if len(kvs) == 1 {
		// leaf: prefix ':' path ':' value
		enc := []byte(prefix + ":" + kvs[0].path + ":")
		enc = append(enc, kvs[0].value...)
		return c02refHash(origin, enc)
	}
	// longest common prefix of all the remaining paths
	cp := kvs[0].path
	for _, kv := range kvs[1:] {
		i := 0
		for i < len(cp) && i < len(kv.path) && cp[i] == kv.path[i] {
			i++
		}
		cp = cp[:i]
	}
	if len(cp) > 0 {
		// extension: path ':' raw child key
		sub := make([]c02refKV, 0, len(kvs))
		for _, kv := range kvs {
			sub = append(sub, c02refKV{kv.path[len(cp):], kv.value})
		}
		enc := []byte(cp + ":")
		enc = append(enc, c02refRefRoot(origin, prefix+cp, sub)...)
		return c02refHash(origin, enc)
	}
	// branch: 16 x (hex child key ':') then the value stored at the branch itself
	var own []byte
	groups := map[byte][]c02refKV{}
	for _, kv := range kvs {
		if kv.path == "" {
			own = kv.value
			continue
		}
		groups[kv.path[0]] = append(groups[kv.path[0]], c02refKV{kv.path[1:], kv.value})
	}
	enc := bytes.NewBuffer(nil)
	for _, c := range []byte("0123456789abcdef") {
		if g, ok := groups[c]; ok {
			enc.WriteString(hex.EncodeToString(c02refRefRoot(origin, prefix+string(c), g)))
		}
		enc.WriteByte(':')
	}
	enc.Write(own)
	return c02refHash(origin, enc.Bytes())
}

func c02refRefRootOf(origin int64, content map[string]string) []byte {
	paths := make([]string, 0, len(content))
	for p := range content {
		paths = append(paths, p)
	}
	sort.Strings(paths)
	kvs := make([]c02refKV, 0, len(paths))
	for _, p := range paths {
		kvs = append(kvs, c02refKV{p, []byte(content[p])})
	}
	return c02refRefRoot(origin, "", kvs)
}

// c02val: the value stored at a path; short paths (which end up as values on branches) carry the
// separator byte of the node encoding
func c02val(path string) string {
	if len(path) <= 2 {
		return "fee:100:zcn"
	}
	return "v"
}

func TestGocvBoundedC02(t *testing.T) {
	cases := 0
	paths := []string{"3456", "3457", "9", "a34567", "a34568", "a9", "b0", "12", "1234", "1256", "1", "1abc", "2def"}
	type op struct {
		del  bool
		path string
	}
	var ops []op
	for _, p := range paths {
		ops = append(ops, op{false, p}, op{true, p})
	}
	fails := 0
	var run func(seq []op, live map[string]bool)
	run = func(seq []op, live map[string]bool) {
		if len(seq) > 0 {
			cases++
			func() {
				defer func() {
					if r := recover(); r != nil {
						if fails < 3 {
							fmt.Printf("GOCV-PANIC %v after %v\n", r, seq)
						}
						fails++
					}
				}()
				tr := c02btrie()
				for _, o := range seq {
					if o.del {
						_, _ = tr.Delete(Path(o.path))
					} else {
						_, _ = tr.Insert(Path(o.path), &SecureSerializableValue{Buffer: []byte(c02val(o.path))})
					}
				}
				var keys []string
				for k := range live {
					keys = append(keys, k)
				}
				sort.Strings(keys)
				direct := c02btrie()
				for _, k := range keys {
					_, _ = direct.Insert(Path(k), &SecureSerializableValue{Buffer: []byte(c02val(k))})
				}
				if len(keys) > 0 {
					content := map[string]string{}
					for _, k := range keys {
						content[k] = c02val(k)
					}
					if want := c02refRefRootOf(1, content); !bytes.Equal(tr.GetRoot(), want) {
						if fails < 3 {
							fmt.Printf("GOCV-FAIL root differs from the independent computation of the published node-hash format: %v gives root %x, independent computation for %v gives %x\n", seq, tr.GetRoot(), keys, want)
						}
						fails++
					}
				}
				// different content, different root: the same paths with one value changed after its first separator byte
				if len(keys) > 0 {
					other := c02btrie()
					for i, k := range keys {
						v := c02val(k)
						if i == 0 {
							v = v + ":changed"
							if len(k) <= 2 {
								v = "fee:200:zcn"
							}
						}
						_, _ = other.Insert(Path(k), &SecureSerializableValue{Buffer: []byte(v)})
					}
					if string(other.GetRoot()) == string(tr.GetRoot()) {
						if fails < 3 {
							fmt.Printf("GOCV-FAIL two tries with different content have the same root %x: %v, and the same with the value at %q changed\n", tr.GetRoot(), keys, keys[0])
						}
						fails++
					}
				}
				if string(tr.GetRoot()) != string(direct.GetRoot()) {
					if fails < 3 {
						fmt.Printf("GOCV-FAIL root depends on history: %v gives root %x, direct construction of %v gives %x\n", seq, tr.GetRoot(), keys, direct.GetRoot())
					}
					fails++
				}
			}()
		}
		if len(seq) == 4 {
			return
		}
		for _, o := range ops {
			nl := map[string]bool{}
			for k := range live {
				nl[k] = true
			}
			if o.del {
				if !live[o.path] {
					continue
				}
				delete(nl, o.path)
			} else {
				if live[o.path] {
					continue
				}
				nl[o.path] = true
			}
			run(append(append([]op{}, seq...), o), nl)
		}
	}
	run(nil, map[string]bool{})
	if fails > 0 {
		t.Fail()
	}
	fmt.Printf("GOCV-BOUNDED cases=%d failures=%d scope=\"values: fee:100:zcn (with the separator byte) at paths of <= 2 characters, v elsewhere; two tries differing in one value must differ in root; all histories of <= 4 inserts/deletes over %v: root equals the root of the trie built directly from the final content and the independent re-computation of the published node-hash format\"\n", cases, fails, paths)
}
