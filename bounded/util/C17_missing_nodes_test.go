package util

// Bounded stand-in for the whole-trie statement of C17 (reachability through a store is outside the
// contracts): for small tries, EVERY subset of the non-root nodes is removed from the store. Checked
// for each subset, at trie versions below, between, equal to and above the nodes' creation versions:
// (1) HasMissingNodes is true exactly when a node reachable from the root is absent;
// (2) GetAllMissingNodes returns exactly the absent nodes reachable through present ones;
// (3) a lookup whose path runs through an absent node fails (never wrong data), other lookups succeed;
// (4) after MergeDB from a donor store holding the removed nodes (either iteration order the store
//     gives) the trie reads its full content under the same root and reports nothing missing;
// (5) the donor store is unchanged;
// (6) for a third of the subsets: repair through MergeState into the store of the same trie object
//     that detected the missing nodes; that object must then report nothing missing and read everything.
// property: C17
// scope: 3 trie contents (6-9 nodes each, leaves/branches/extensions, a value on a branch); all 2^n subsets of non-root nodes; nodes created at versions 2 and 4; trie versions {1, 3, 4, 7} (below, between, at and above the node versions)

import (
	"bytes"
	"context"
	"fmt"
	"sort"
	"testing"

	"github.com/0chain/common/core/logging"
	"github.com/0chain/common/core/statecache"
	"go.uber.org/zap"
)

func init() {
	logging.Logger = zap.NewNop()
	logging.N2n = zap.NewNop()
}

func TestGocvBoundedC17(t *testing.T) {
	cases, fails := 0, 0
	fail := func(format string, a ...interface{}) {
		if fails < 5 {
			fmt.Printf("GOCV-FAIL %s\n", fmt.Sprintf(format, a...))
		}
		fails++
	}
	contents := [][]string{
		{"0a01", "0a02", "0b01", "1c"},
		{"12", "1234", "1256", "34"},
		{"abcd01", "abcd02", "abce", "f0"},
	}
	for ci, keys := range contents {
		full := NewMemoryNodeDB()
		// the content is written at two versions (the first two keys at 2, the rest at 4), so the nodes
		// carry versions 2 and 4; detection and repair then run at trie versions below, between, at and above them
		src := NewMerklePatriciaTrie(full, 2, nil, statecache.NewEmpty())
		for i, k := range keys {
			if i == 2 {
				src.SetVersion(4)
			}
			if _, err := src.Insert(Path(k), &SecureSerializableValue{Buffer: []byte{byte('a' + i)}}); err != nil {
				t.Fatal(err)
			}
		}
		root := src.GetRoot()
		// the reachable node graph: key -> child keys, and for each content key the node keys on its path
		children := map[string][]string{}
		var order []string
		var walk func(k Key)
		walk = func(k Key) {
			n, err := full.GetNode(k)
			if err != nil {
				t.Fatal(err)
			}
			order = append(order, string(k))
			switch nn := n.(type) {
			case *ExtensionNode:
				children[string(k)] = append(children[string(k)], string(nn.NodeKey))
				walk(nn.NodeKey)
			case *FullNode:
				for _, c := range nn.Children {
					if c != nil {
						children[string(k)] = append(children[string(k)], string(c))
						walk(c)
					}
				}
			}
		}
		walk(root)
		nonRoot := order[1:]
		if len(nonRoot) > 10 {
			t.Fatalf("content %d has %d nodes", ci, len(nonRoot))
		}
		pathNodes := map[string][]string{}
		for _, k := range keys {
			// node keys visited by a lookup of k: follow the trie on the full store
			var visit func(nk Key, rest Path)
			visit = func(nk Key, rest Path) {
				pathNodes[k] = append(pathNodes[k], string(nk))
				n, _ := full.GetNode(nk)
				switch nn := n.(type) {
				case *ExtensionNode:
					if bytes.HasPrefix(rest, nn.Path) {
						visit(nn.NodeKey, rest[len(nn.Path):])
					}
				case *FullNode:
					if len(rest) > 0 {
						if c := nn.GetChild(rest[0]); c != nil {
							visit(c, rest[1:])
						}
					}
				}
			}
			visit(root, Path(k))
		}
		for mask := 0; mask < 1<<len(nonRoot); mask++ {
			for _, version := range []Sequence{4, 7, 3, 1} {
				cases++
				func() {
					defer func() {
						if r := recover(); r != nil {
							fail("content %v, removed mask %b, version %d: panic: %v", keys, mask, version, r)
						}
					}()
					absent := map[string]bool{}
					for i, k := range nonRoot {
						if mask&(1<<i) != 0 {
							absent[k] = true
						}
					}
					damaged, donor := NewMemoryNodeDB(), NewMemoryNodeDB()
					_ = full.Iterate(context.Background(), func(ctx context.Context, key Key, node Node) error {
						if absent[string(key)] {
							return donor.PutNode(key, node)
						}
						return damaged.PutNode(key, node)
					})
					donorBefore := map[string]string{}
					_ = donor.Iterate(context.Background(), func(ctx context.Context, key Key, node Node) error {
						donorBefore[string(key)] = string(node.Encode())
						return nil
					})
					// expected frontier: absent nodes whose parent chain from the root is present
					var frontier []string
					var reach func(k string)
					reach = func(k string) {
						if absent[k] {
							frontier = append(frontier, k)
							return
						}
						for _, c := range children[k] {
							reach(c)
						}
					}
					reach(string(root))
					sort.Strings(frontier)
					desc := fmt.Sprintf("content %v, %d of %d non-root nodes removed (mask %b), trie version %d", keys, len(absent), len(nonRoot), mask, version)
					tr := NewMerklePatriciaTrie(damaged, version, root, statecache.NewEmpty())
					has, err := tr.HasMissingNodes(context.Background())
					if err != nil || has != (len(frontier) > 0) {
						fail("%s: HasMissingNodes = %v, %v; want %v", desc, has, err, len(frontier) > 0)
					}
					miss, err := tr.GetAllMissingNodes()
					var got []string
					for _, m := range miss {
						got = append(got, string(m))
					}
					sort.Strings(got)
					if err != nil || fmt.Sprint(got) != fmt.Sprint(frontier) {
						fail("%s: GetAllMissingNodes returns %d keys (err %v), want exactly the %d absent nodes reachable through present ones", desc, len(got), err, len(frontier))
					}
					for i, k := range keys {
						blocked := false
						for _, nk := range pathNodes[k] {
							if absent[nk] {
								blocked = true
							}
						}
						v, err := tr.GetNodeValueRaw(Path(k))
						if blocked && err == nil {
							fail("%s: lookup of %s runs through an absent node but returns %q", desc, k, v)
						}
						if !blocked && (err != nil || len(v) == 0 || v[len(v)-1] != byte('a'+i)) {
							fail("%s: lookup of %s does not touch an absent node but gives %q, %v", desc, k, v, err)
						}
					}
					// repair path 2 (on copies of the stores): the absent nodes come back through MergeState into
					// the store of the SAME trie object that detected them; it must then report nothing missing
					if mask%3 == 1 {
						damaged2, donor2 := NewMemoryNodeDB(), NewMemoryNodeDB()
						_ = damaged.Iterate(context.Background(), func(ctx context.Context, key Key, node Node) error { return damaged2.PutNode(key, node) })
						_ = donor.Iterate(context.Background(), func(ctx context.Context, key Key, node Node) error { return donor2.PutNode(key, node) })
						same := NewMerklePatriciaTrie(damaged2, version, root, statecache.NewEmpty())
						_, _ = same.HasMissingNodes(context.Background())
						_, _ = same.GetAllMissingNodes()
						if err := MergeState(context.Background(), donor2, same.GetNodeDB()); err != nil {
							fail("%s: MergeState: %v", desc, err)
						} else {
							if has, err := same.HasMissingNodes(context.Background()); has || err != nil {
								fail("%s: after MergeState into the store of the trie that detected the missing nodes, the same trie still reports missing nodes (%v)", desc, err)
							}
							for i, k := range keys {
								v, err := same.GetNodeValueRaw(Path(k))
								if err != nil || len(v) == 0 || v[len(v)-1] != byte('a'+i) {
									fail("%s: after MergeState lookup of %s on the same trie gives %q, %v", desc, k, v, err)
								}
							}
						}
					}
					tr2 := NewMerklePatriciaTrie(damaged, version, root, statecache.NewEmpty())
					if err := tr2.MergeDB(donor, root, nil); err != nil {
						fail("%s: MergeDB: %v", desc, err)
						return
					}
					if !bytes.Equal(tr2.GetRoot(), root) {
						fail("%s: root changed by MergeDB", desc)
					}
					if has, err := tr2.HasMissingNodes(context.Background()); has || err != nil {
						fail("%s: after MergeDB from the donor store the trie still reports missing nodes (%v)", desc, err)
					}
					for i, k := range keys {
						v, err := tr2.GetNodeValueRaw(Path(k))
						if err != nil || len(v) == 0 || v[len(v)-1] != byte('a'+i) {
							fail("%s: after MergeDB lookup of %s gives %q, %v", desc, k, v, err)
						}
					}
					n := 0
					_ = donor.Iterate(context.Background(), func(ctx context.Context, key Key, node Node) error {
						n++
						if donorBefore[string(key)] != string(node.Encode()) || !bytes.Equal(node.GetHashBytes(), key) {
							fail("%s: donor node %x changed by MergeDB", desc, key)
						}
						return nil
					})
					if n != len(donorBefore) {
						fail("%s: donor store holds %d nodes after MergeDB, %d before", desc, n, len(donorBefore))
					}
				}()
			}
		}
	}
	fmt.Printf("GOCV-BOUNDED cases=%d failures=%d scope=\"contents %v: every subset of non-root nodes removed, trie versions {1, 3, 4, 7} (nodes created at versions 2 and 4): HasMissingNodes, GetAllMissingNodes, lookups, MergeDB repair, donor unchanged\"\n", cases, fails, contents)
	if fails > 0 {
		t.Fail()
	}
}
