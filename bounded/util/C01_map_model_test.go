package util

// Bounded stand-in for the map semantics (L2) of C01, which the contracts do not decide:
// every sequence of up to N operations (insert / update / delete) over a fixed set of prefix-related
// paths is run on a real trie (memory store) and compared, after every step, with a Go map:
// lookups of all paths, the error of deleting an absent path, and full iteration.
// property: C01
// scope: paths {"", 12, 13, 1234, 1235, 12ab, 12abcd, 12cd, 5678}; values {x, a:b} (one with the separator byte); removals alternate between Delete, Insert(nil) and Insert(empty value); an over-size value (limit+1 bytes) is offered after every one-operation history; all sequences of <= 3 operations (quick) / <= 4 (thorough), from the empty trie and from base contents {12,1234,5678}, {12,1234,1235} on the memory store; base {12,1234,5678} also on a layered store one version above the base and on the persistent store

import (
	"context"
	"fmt"
	"os"
	"sort"
	"testing"

	"github.com/0chain/common/core/logging"
	"github.com/0chain/common/core/statecache"
	"go.uber.org/zap"
)

func init() {
	logging.Logger = zap.NewNop()
	logging.N2n = zap.NewNop()
}

var c01oversize = make([]byte, MPTMaxAllowableNodeSize+1)

type c01op struct {
	del  bool
	path string
	val  string
}

func TestGocvBoundedC01(t *testing.T) {
	paths := []string{"", "12", "13", "1234", "1235", "12ab", "12abcd", "12cd", "5678"} // 12ab / 12cd: two children in letter slots
	var ops []c01op
	for _, p := range paths {
		ops = append(ops, c01op{false, p, "x"}, c01op{false, p, "a:b"}, c01op{true, p, ""})
	}
	depth := 3
	if os.Getenv("VERIF_TIER") == "thorough" {
		depth = 4
	}
	cases, fails := 0, 0
	fail := func(seq []c01op, format string, a ...interface{}) {
		if fails < 5 {
			fmt.Printf("GOCV-FAIL after %v: %s\n", seq, fmt.Sprintf(format, a...))
		}
		fails++
	}
	var base []string
	storeKind := "memory"
	dir := t.TempDir()
	pndb, perr := NewPNodeDB(dir+"/state", dir+"/log")
	if perr != nil {
		t.Fatal(perr)
	}
	var run func(seq []c01op)
	run = func(seq []c01op) {
		if len(seq) > 0 {
			cases++
			func() {
				defer func() {
					if r := recover(); r != nil {
						fail(seq, "panic: %v", r)
					}
				}()
				sc := statecache.NewStateCache()
				_, tc := statecache.NewBlockTxnCaches(sc, statecache.Block{})
				var tr *MerklePatriciaTrie
				switch storeKind {
				case "persistent":
					tr = NewMerklePatriciaTrie(pndb, 1, nil, tc)
				default:
					tr = NewMerklePatriciaTrie(NewMemoryNodeDB(), 1, nil, tc)
				}
				model := map[string]string{}
				for _, p := range base {
					if _, err := tr.Insert(Path(p), &SecureSerializableValue{Buffer: []byte("b")}); err != nil {
						fail(seq, "base Insert(%q) failed: %v", p, err)
					}
					model[p] = "b"
				}
				if storeKind == "layered" {
					// the operations run at the next version in a new level on top of the base content
					_, tc2 := statecache.NewBlockTxnCaches(sc, statecache.Block{})
					upper := NewMerklePatriciaTrie(NewLevelNodeDB(NewMemoryNodeDB(), tr.GetNodeDB(), false), 2, tr.GetRoot(), tc2)
					tr = upper
				}
				for i, op := range seq {
					if op.del {
						// the three ways to remove a path: Delete, storing nil, storing a value that encodes to nothing
						var err error
						how := "Delete"
						switch (i + len(seq) + len(op.path)/2) % 3 {
						case 0:
							_, err = tr.Delete(Path(op.path))
						case 1:
							how = "Insert(nil value)"
							_, err = tr.Insert(Path(op.path), nil)
						default:
							how = "Insert(empty value)"
							_, err = tr.Insert(Path(op.path), &SecureSerializableValue{Buffer: []byte{}})
						}
						_, present := model[op.path]
						if present && err != nil {
							fail(seq[:i+1], "%s (%q) of a present path failed: %v", how, op.path, err)
						}
						if !present && err != ErrValueNotPresent {
							fail(seq[:i+1], "%s (%q) of an absent path returned %v, want value not present", how, op.path, err)
						}
						delete(model, op.path)
					} else {
						if _, err := tr.Insert(Path(op.path), &SecureSerializableValue{Buffer: []byte(op.val)}); err != nil {
							fail(seq[:i+1], "Insert(%q) failed: %v", op.path, err)
						}
						model[op.path] = op.val
					}
					for _, p := range paths {
						d, err := tr.GetNodeValueRaw(Path(p))
						want, present := model[p]
						if present && (err != nil || string(d) != want) {
							fail(seq[:i+1], "lookup(%q) = %q, %v; want %q", p, d, err, want)
						}
						if !present && err == nil {
							fail(seq[:i+1], "lookup(%q) = %q; want value not present", p, d)
						}
					}
					var got []string
					err := tr.Iterate(context.TODO(), func(ctx context.Context, path Path, key Key, node Node) error {
						if vn, ok := node.(*ValueNode); ok && vn != nil {
							got = append(got, string(path)+"="+string(vn.GetValueBytes()))
						}
						return nil
					}, NodeTypeValueNode)
					var want []string
					for k, v := range model {
						want = append(want, k+"="+v)
					}
					sort.Strings(got)
					sort.Strings(want)
					if err != nil || fmt.Sprint(got) != fmt.Sprint(want) {
						fail(seq[:i+1], "iteration yields %v (err %v), want %v", got, err, want)
					}
				}
				if len(seq) == 1 {
					// an over-size value is rejected and nothing changes
					before := append([]byte{}, tr.GetRoot()...)
					nchanges := tr.GetChangeCount()
					if _, err := tr.Insert(Path(seq[0].path), &SecureSerializableValue{Buffer: c01oversize}); err == nil {
						fail(seq, "Insert(%q) of a value of %d bytes succeeded, want a rejection", seq[0].path, len(c01oversize))
					}
					if string(tr.GetRoot()) != string(before) || tr.GetChangeCount() != nchanges {
						fail(seq, "a rejected over-size Insert(%q) changed the trie (root %x -> %x, %d -> %d recorded changes)", seq[0].path, before, tr.GetRoot(), nchanges, tr.GetChangeCount())
					}
					for _, p := range paths {
						d, err := tr.GetNodeValueRaw(Path(p))
						want, present := model[p]
						if present != (err == nil) || (present && string(d) != want) {
							fail(seq, "after a rejected over-size Insert: lookup(%q) = %q, %v; want %q (present %v)", p, d, err, want, present)
						}
					}
				}
			}()
		}
		if len(seq) == depth {
			return
		}
		for _, op := range ops {
			run(append(append([]c01op{}, seq...), op))
		}
	}
	run(nil)
	// the same sequences on top of base contents (deeper histories: a value on a branch with one or two children below it)
	for _, b := range [][]string{{"12", "1234", "5678"}, {"12", "1234", "1235"}} {
		base = b
		run(nil)
	}
	// the same on a layered store (base content one level and one version below) and on the persistent store
	for _, k := range []string{"layered", "persistent"} {
		storeKind = k
		base = []string{"12", "1234", "5678"}
		run(nil)
	}
	fmt.Printf("GOCV-BOUNDED cases=%d failures=%d scope=\"all sequences of <= %d insert/update/delete operations over 9 prefix-related hex paths, 2 values, removal through Delete / Insert(nil) / Insert(empty value) in turn, an over-size Insert after every one-operation history, memory store from the empty trie and from the base contents {12,1234,5678} and {12,1234,1235}; base {12,1234,5678} also on a layered store (operations one version above the base, in a new level) and on the persistent store\"\n", cases, fails, depth)
	if fails > 0 {
		t.Fail()
	}
}
