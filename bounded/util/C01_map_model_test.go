package util

// Bounded stand-in for the map semantics (L2) of C01, which the contracts do not decide:
// every sequence of up to N operations (insert / update / delete) over a fixed set of prefix-related
// paths is run on a real trie (memory store) and compared, after every step, with a Go map:
// lookups of all paths, the error of deleting an absent path, and full iteration.
// property: C01
// scope: paths {"", 12, 13, 1234, 1235, 12ab, 12abcd, 5678}; values {x, a:b} (one with the separator byte); all sequences of <= 3 operations (quick) / <= 4 (thorough), from the empty trie and from base contents {12,1234,5678}, {12,1234,1235}

import (
	"context"
	"fmt"
	"os"
	"sort"
	"testing"

	"github.com/0chain/common/core/logging"
	"github.com/0chain/common/core/statecache"
	"go.uber.org/zap"
)

func init() {
	logging.Logger = zap.NewNop()
	logging.N2n = zap.NewNop()
}

type c01op struct {
	del  bool
	path string
	val  string
}

func TestGocvBoundedC01(t *testing.T) {
	paths := []string{"", "12", "13", "1234", "1235", "12ab", "12abcd", "5678"}
	var ops []c01op
	for _, p := range paths {
		ops = append(ops, c01op{false, p, "x"}, c01op{false, p, "a:b"}, c01op{true, p, ""})
	}
	depth := 3
	if os.Getenv("VERIF_TIER") == "thorough" {
		depth = 4
	}
	cases, fails := 0, 0
	fail := func(seq []c01op, format string, a ...interface{}) {
		if fails < 5 {
			fmt.Printf("GOCV-FAIL after %v: %s\n", seq, fmt.Sprintf(format, a...))
		}
		fails++
	}
	var base []string
	var run func(seq []c01op)
	run = func(seq []c01op) {
		if len(seq) > 0 {
			cases++
			func() {
				defer func() {
					if r := recover(); r != nil {
						fail(seq, "panic: %v", r)
					}
				}()
				sc := statecache.NewStateCache()
				_, tc := statecache.NewBlockTxnCaches(sc, statecache.Block{})
				tr := NewMerklePatriciaTrie(NewMemoryNodeDB(), 1, nil, tc)
				model := map[string]string{}
				for _, p := range base {
					if _, err := tr.Insert(Path(p), &SecureSerializableValue{Buffer: []byte("b")}); err != nil {
						fail(seq, "base Insert(%q) failed: %v", p, err)
					}
					model[p] = "b"
				}
				for i, op := range seq {
					if op.del {
						_, err := tr.Delete(Path(op.path))
						_, present := model[op.path]
						if present && err != nil {
							fail(seq[:i+1], "Delete(%q) of a present path failed: %v", op.path, err)
						}
						if !present && err != ErrValueNotPresent {
							fail(seq[:i+1], "Delete(%q) of an absent path returned %v, want value not present", op.path, err)
						}
						delete(model, op.path)
					} else {
						if _, err := tr.Insert(Path(op.path), &SecureSerializableValue{Buffer: []byte(op.val)}); err != nil {
							fail(seq[:i+1], "Insert(%q) failed: %v", op.path, err)
						}
						model[op.path] = op.val
					}
					for _, p := range paths {
						d, err := tr.GetNodeValueRaw(Path(p))
						want, present := model[p]
						if present && (err != nil || string(d) != want) {
							fail(seq[:i+1], "lookup(%q) = %q, %v; want %q", p, d, err, want)
						}
						if !present && err == nil {
							fail(seq[:i+1], "lookup(%q) = %q; want value not present", p, d)
						}
					}
					var got []string
					err := tr.Iterate(context.TODO(), func(ctx context.Context, path Path, key Key, node Node) error {
						if vn, ok := node.(*ValueNode); ok && vn != nil {
							got = append(got, string(path)+"="+string(vn.GetValueBytes()))
						}
						return nil
					}, NodeTypeValueNode)
					var want []string
					for k, v := range model {
						want = append(want, k+"="+v)
					}
					sort.Strings(got)
					sort.Strings(want)
					if err != nil || fmt.Sprint(got) != fmt.Sprint(want) {
						fail(seq[:i+1], "iteration yields %v (err %v), want %v", got, err, want)
					}
				}
			}()
		}
		if len(seq) == depth {
			return
		}
		for _, op := range ops {
			run(append(append([]c01op{}, seq...), op))
		}
	}
	run(nil)
	// the same sequences on top of base contents (deeper histories: a value on a branch with one or two children below it)
	for _, b := range [][]string{{"12", "1234", "5678"}, {"12", "1234", "1235"}} {
		base = b
		run(nil)
	}
	fmt.Printf("GOCV-BOUNDED cases=%d failures=%d scope=\"all sequences of <= %d insert/update/delete operations over 8 prefix-related hex paths, 2 values, memory store; from the empty trie and from the base contents {12,1234,5678} and {12,1234,1235}\"\n", cases, fails, depth)
	if fails > 0 {
		t.Fail()
	}
}
