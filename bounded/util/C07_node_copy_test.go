package util

// Bounded stand-in for the part of C07 that lives in core/util (mechanism "deep copy of trie nodes by
// encode/decode", mpt_node.go Clone / CopyFrom): the state cache stores trie nodes and relies on their
// Clone and CopyFrom to hand out and take in independent copies. For every node kind and shape below,
// a copy is taken and then every byte the caller can reach in the SOURCE (value buffer, path, prefix,
// child keys, origin) is overwritten: the copy must still encode as before; then the same the other
// way round (the copy is overwritten, the source must be unchanged). A copy that shares the inner
// value object (or a path / child slice) with its source fails here.
// property: C07
// scope: value node, leaf (2 paths), extension, branch with 0/2/16 children with and without a value; values of 1 and 40 bytes; copies by Clone and by CopyFrom into a node of the same kind; mutation of value buffer, path, prefix, child keys, node key and origin on either side

import (
	"bytes"
	"fmt"
	"testing"

	"github.com/0chain/common/core/logging"
	"github.com/0chain/common/core/statecache"
	"go.uber.org/zap"
)

// c07scribble overwrites everything a caller can reach inside n.
func c07scribble(n Node) {
	scribbleValue := func(vn *ValueNode) {
		if vn == nil || vn.Value == nil {
			return
		}
		if sv, ok := vn.Value.(*SecureSerializableValue); ok {
			for i := range sv.Buffer {
				sv.Buffer[i] = 'X'
			}
		}
	}
	switch nn := n.(type) {
	case *ValueNode:
		scribbleValue(nn)
	case *LeafNode:
		scribbleValue(nn.Value)
		for i := range nn.Path {
			nn.Path[i] = 'f'
		}
		for i := range nn.Prefix {
			nn.Prefix[i] = 'f'
		}
	case *ExtensionNode:
		for i := range nn.Path {
			nn.Path[i] = 'f'
		}
		for i := range nn.NodeKey {
			nn.NodeKey[i] = 0xee
		}
	case *FullNode:
		scribbleValue(nn.Value)
		for _, c := range nn.Children {
			for i := range c {
				c[i] = 0xee
			}
		}
	}
	n.SetOrigin(n.GetOrigin() + 1000)
}

func TestGocvBoundedC07(t *testing.T) {
	logging.Logger = zap.NewNop()
	cases, fails := 0, 0
	fail := func(format string, a ...interface{}) {
		if fails < 5 {
			fmt.Printf("GOCV-FAIL %s\n", fmt.Sprintf(format, a...))
		}
		fails++
	}
	key := func(b byte) Key { return bytes.Repeat([]byte{b}, 32) }
	val := func(n int) MPTSerializable { return &SecureSerializableValue{Buffer: bytes.Repeat([]byte{'v'}, n)} }
	// builders: every call returns a fresh, unshared node
	type builder struct {
		desc string
		mk   func() Node
	}
	var builders []builder
	for _, vl := range []int{1, 40} {
		vl := vl
		builders = append(builders,
			builder{fmt.Sprintf("value node (%d-byte value)", vl), func() Node {
				vn := NewValueNode()
				vn.SetValue(val(vl))
				vn.SetOrigin(3)
				return vn
			}},
			builder{fmt.Sprintf("leaf (path 1234, %d-byte value)", vl), func() Node { return NewLeafNode(Path("0a"), Path("1234"), 3, val(vl)) }},
			builder{fmt.Sprintf("leaf (empty path, %d-byte value)", vl), func() Node { return NewLeafNode(Path("0a0b"), Path(""), 3, val(vl)) }},
		)
		for _, nch := range []int{0, 2, 16} {
			nch := nch
			for _, withValue := range []bool{false, true} {
				withValue := withValue
				if !withValue && vl != 1 {
					continue
				}
				builders = append(builders, builder{fmt.Sprintf("branch (%d children, value %v of %d bytes)", nch, withValue, vl), func() Node {
					var v MPTSerializable
					if withValue {
						v = val(vl)
					}
					fn := NewFullNode(v)
					fn.SetOrigin(3)
					for i := 0; i < nch; i++ {
						pos := i
						if nch == 2 {
							pos = 3 + 9*i
						}
						fn.Children[pos] = key(byte(0x10 + i))
					}
					return fn
				}})
			}
		}
	}
	builders = append(builders, builder{"extension (path 12ab)", func() Node {
		en := NewExtensionNode(Path("12ab"), key(0x77))
		en.SetOrigin(3)
		return en
	}})
	blank := func(n Node) statecache.Value {
		switch n.(type) {
		case *ValueNode:
			return NewValueNode()
		case *LeafNode:
			return NewLeafNode(Path("0f"), Path("0f"), 99, &SecureSerializableValue{Buffer: []byte("other")})
		case *FullNode:
			fo := NewFullNode(&SecureSerializableValue{Buffer: []byte("other")})
			fo.Children[5] = key(0x55)
			return fo
		case *ExtensionNode:
			return NewExtensionNode(Path("0f"), key(0x55))
		}
		return nil
	}
	for _, b := range builders {
		for _, how := range []string{"Clone", "CopyFrom"} {
			for _, side := range []string{"the source", "the copy"} {
				cases++
				desc := fmt.Sprintf("%s, copied by %s, then %s is overwritten", b.desc, how, side)
				func() {
					defer func() {
						if r := recover(); r != nil {
							fail("%s: panic: %v", desc, r)
						}
					}()
					src := b.mk()
					want := append([]byte{}, src.Encode()...)
					sv, ok := src.(statecache.Value)
					if !ok {
						fail("%s: the node is not a state cache value", desc)
						return
					}
					var cp statecache.Value
					if how == "Clone" {
						cp = sv.Clone()
					} else {
						cp = blank(src)
						if !cp.CopyFrom(src) {
							fail("%s: CopyFrom reports false", desc)
							return
						}
					}
					cn, ok := cp.(Node)
					if !ok || !bytes.Equal(cn.Encode(), want) {
						fail("%s: the copy does not encode like its source", desc)
						return
					}
					if side == "the source" {
						c07scribble(src)
						if !bytes.Equal(cn.Encode(), want) {
							fail("%s: the copy changed with it (it shares memory with its source)", desc)
						}
					} else {
						c07scribble(cn)
						if !bytes.Equal(src.Encode(), want) {
							fail("%s: the source changed with it (the copy shares memory with its source)", desc)
						}
					}
				}()
			}
		}
	}
	fmt.Printf("GOCV-BOUNDED cases=%d failures=%d scope=\"trie nodes as state cache values: value node, leaves, extension, branches with 0/2/16 children with and without a value (1 and 40 bytes): Clone and CopyFrom give a copy that encodes like its source and shares no memory with it (value buffer, path, prefix, child keys, node key, origin overwritten on either side)\"\n", cases, fails)
	if fails > 0 {
		t.Fail()
	}
}
