package util

// Bounded stand-in for the whole-tree statement of C03 (views of parent, child and sibling tries
// over operation sequences and merge/discard decisions: a relation between several tries and
// histories, not a per-call contract). A parent (block) trie with a base content is opened; two
// children are opened over its node store; each child runs a sequence of operations; the children are
// then merged or discarded in either order. Checked at every step against a model (Go maps):
// a child sees the parent's content plus its own changes; the parent and the sibling see none of a
// child's changes; a merged child makes the parent's content and root equal to the child's view; the
// second child, opened before the first was merged, is stale: its merge is rejected and leaves the
// parent's content, root and pending changes exactly as they were; a discarded child leaves no trace.
// property: C03
// scope: base {12=a, 1234=b, 5678=c}; children: all sequences of <= 2 (quick) / 3 (thorough) operations over insert/overwrite/delete of paths {12, 1234, 1256, 5678, 9a}; decisions: merge/discard for each child in both orders

import (
	"bytes"
	"context"
	"fmt"
	"os"
	"sort"
	"testing"

	"github.com/0chain/common/core/logging"
	"github.com/0chain/common/core/statecache"
	"go.uber.org/zap"
)

func init() {
	logging.Logger = zap.NewNop()
	logging.N2n = zap.NewNop()
}

type c03op struct {
	del  bool
	path string
	val  string
}

func c03content(tr *MerklePatriciaTrie) (map[string]string, error) {
	out := map[string]string{}
	err := tr.Iterate(context.Background(), func(ctx context.Context, path Path, key Key, node Node) error {
		if node == nil {
			return fmt.Errorf("missing node at %q", string(path))
		}
		if vn, ok := node.(*ValueNode); ok {
			out[string(path)] = string(vn.GetValueBytes())
		}
		return nil
	}, NodeTypeValueNode|NodeTypeLeafNode|NodeTypeFullNode|NodeTypeExtensionNode)
	return out, err
}

func c03same(a, b map[string]string) bool {
	if len(a) != len(b) {
		return false
	}
	for k, v := range a {
		if bv, ok := b[k]; !ok || bv != v {
			return false
		}
	}
	return true
}

func c03show(m map[string]string) string {
	var ks []string
	for k, v := range m {
		ks = append(ks, k+"="+v)
	}
	sort.Strings(ks)
	return fmt.Sprint(ks)
}

func TestGocvBoundedC03(t *testing.T) {
	depth := 2
	if os.Getenv("VERIF_TIER") == "thorough" {
		depth = 3
	}
	paths := []string{"12", "1234", "1256", "5678", "9a"}
	var ops []c03op
	for _, p := range paths {
		ops = append(ops, c03op{false, p, "x"}, c03op{true, p, ""})
	}
	var seqs [][]c03op
	var gen func(seq []c03op)
	gen = func(seq []c03op) {
		if len(seq) > 0 {
			seqs = append(seqs, seq)
		}
		if len(seq) == depth {
			return
		}
		for _, o := range ops {
			gen(append(append([]c03op{}, seq...), o))
		}
	}
	gen(nil)
	cases, fails := 0, 0
	fail := func(desc, format string, a ...interface{}) {
		if fails < 5 {
			fmt.Printf("GOCV-FAIL %s: %s\n", desc, fmt.Sprintf(format, a...))
		}
		fails++
	}
	val := func(s string) *SecureSerializableValue {
		// the stored bytes are the value's encoding; compare through a trie lookup of the model instead
		return &SecureSerializableValue{Buffer: []byte(s)}
	}
	apply := func(tr *MerklePatriciaTrie, model map[string]string, seq []c03op) error {
		for _, o := range seq {
			if o.del {
				_, err := tr.Delete(Path(o.path))
				if _, present := model[o.path]; present {
					if err != nil {
						return fmt.Errorf("delete %s: %v", o.path, err)
					}
					delete(model, o.path)
				} else if err == nil {
					return fmt.Errorf("delete of absent %s succeeded", o.path)
				}
				continue
			}
			if _, err := tr.Insert(Path(o.path), val(o.val)); err != nil {
				return fmt.Errorf("insert %s: %v", o.path, err)
			}
			enc, _ := val(o.val).MarshalMsg(nil)
			model[o.path] = string(enc)
		}
		return nil
	}
	sample := 7
	if depth == 3 {
		sample = 53
	}
	for i1 := 0; i1 < len(seqs); i1++ {
		for i2 := 0; i2 < len(seqs); i2 += sample { // the sibling's sequences are sampled (every 7th; thorough: every 53rd of the longer list), the first child's are exhaustive
			s1, s2 := seqs[i1], seqs[i2]
			for _, order := range []string{"first then second", "second then first"} {
				for _, dec := range []string{"merge,merge", "merge,discard", "discard,merge", "discard,discard"} {
					cases++
					desc := fmt.Sprintf("child A %v, child B %v, decisions %s in order %s", s1, s2, dec, order)
					func() {
						defer func() {
							if r := recover(); r != nil {
								fail(desc, "panic: %v", r)
							}
						}()
						parent := NewMerklePatriciaTrie(NewLevelNodeDB(NewMemoryNodeDB(), NewMemoryNodeDB(), false), 1, nil, statecache.NewEmpty())
						pm := map[string]string{}
						if err := apply(parent, pm, []c03op{{false, "12", "a"}, {false, "1234", "b"}, {false, "5678", "c"}}); err != nil {
							fail(desc, "setup: %v", err)
							return
						}
						open := func() *MerklePatriciaTrie {
							return NewMerklePatriciaTrie(NewLevelNodeDB(NewMemoryNodeDB(), parent.GetNodeDB(), false), parent.GetVersion(), parent.GetRoot(), statecache.NewEmpty())
						}
						ca, cb := open(), open()
						ma, mb := map[string]string{}, map[string]string{}
						for k, v := range pm {
							ma[k], mb[k] = v, v
						}
						pRoot := append([]byte{}, parent.GetRoot()...)
						pChanges := parent.GetChangeCount()
						checkParent := func(when string, want map[string]string, root []byte, changes int) bool {
							got, err := c03content(parent)
							if err != nil || !c03same(got, want) {
								fail(desc, "%s: the parent shows %s (%v), want %s", when, c03show(got), err, c03show(want))
								return false
							}
							if !bytes.Equal(parent.GetRoot(), root) {
								fail(desc, "%s: the parent's root changed", when)
								return false
							}
							if changes >= 0 && parent.GetChangeCount() != changes {
								fail(desc, "%s: the parent has %d pending changes, had %d", when, parent.GetChangeCount(), changes)
								return false
							}
							return true
						}
						if err := apply(ca, ma, s1); err != nil {
							fail(desc, "child A: %v", err)
							return
						}
						if got, err := c03content(cb); err != nil || !c03same(got, mb) {
							fail(desc, "after child A's operations its sibling shows %s (%v), want %s", c03show(got), err, c03show(mb))
							return
						}
						if !checkParent("after child A's operations", pm, pRoot, pChanges) {
							return
						}
						if err := apply(cb, mb, s2); err != nil {
							fail(desc, "child B: %v", err)
							return
						}
						if got, err := c03content(ca); err != nil || !c03same(got, ma) {
							fail(desc, "child A shows %s (%v), want the parent's content plus its own changes %s", c03show(got), err, c03show(ma))
							return
						}
						if got, err := c03content(cb); err != nil || !c03same(got, mb) {
							fail(desc, "child B shows %s (%v), want %s", c03show(got), err, c03show(mb))
							return
						}
						if !checkParent("after both children's operations", pm, pRoot, pChanges) {
							return
						}
						type ch struct {
							name string
							tr   *MerklePatriciaTrie
							m    map[string]string
						}
						first, second := ch{"A", ca, ma}, ch{"B", cb, mb}
						if order == "second then first" {
							first, second = second, first
						}
						decs := []bool{dec[:5] == "merge", dec[len(dec)-5:] == "merge"}
						merged := false
						for n, c := range []ch{first, second} {
							if !decs[n] {
								// discarded: no trace
								if !checkParent("after discarding child "+c.name, pm, pRoot, -1) {
									return
								}
								continue
							}
							beforeRoot := append([]byte{}, parent.GetRoot()...)
							beforeChanges := parent.GetChangeCount()
							err := parent.MergeMPTChanges(c.tr)
							unchangedChild := bytes.Equal(c.tr.GetRoot(), beforeRoot)
							if merged && !unchangedChild {
								// the parent moved on since this child was opened: the merge must be rejected without a trace
								if err == nil {
									fail(desc, "merge of the stale child %s was accepted", c.name)
									return
								}
								if !checkParent("after the rejected merge of the stale child "+c.name, pm, beforeRoot, beforeChanges) {
									return
								}
								continue
							}
							if err != nil {
								fail(desc, "merge of child %s: %v", c.name, err)
								return
							}
							if !unchangedChild {
								merged = true
								pm = c.m
								pRoot = append([]byte{}, c.tr.GetRoot()...)
							}
							if !checkParent("after merging child "+c.name, pm, pRoot, -1) {
								return
							}
						}
					}()
				}
			}
		}
	}
	// children one after the other: the base content lies in a prior store one level below the parent; child A
	// is merged, then child B is opened on the moved-on parent and merged, then a fresh child C must see
	// exactly the merged content (lookups and iteration), and so must the parent. The operations include
	// writing a path back to its base value (a node deleted at the parent's level is created again).
	restore := map[string]string{"12": "a", "1234": "b", "5678": "c"}
	var sops []c03op
	for _, p := range paths {
		sops = append(sops, c03op{false, p, "x"}, c03op{true, p, ""})
		if v, ok := restore[p]; ok {
			sops = append(sops, c03op{false, p, v})
		}
	}
	var sseqs [][]c03op
	for _, o1 := range sops {
		sseqs = append(sseqs, []c03op{o1})
		for _, o2 := range sops {
			sseqs = append(sseqs, []c03op{o1, o2})
		}
	}
	step := 1
	if len(sseqs) > 120 {
		step = 3 // the second child's sequences are sampled
	}
	for _, s1 := range sseqs {
		for j := 0; j < len(sseqs); j += step {
			s2 := sseqs[j]
			cases++
			desc := fmt.Sprintf("children one after the other: A %v merged, then B %v merged, then a fresh child", s1, s2)
			func() {
				defer func() {
					if r := recover(); r != nil {
						fail(desc, "panic: %v", r)
					}
				}()
				prior := NewMemoryNodeDB()
				bt := NewMerklePatriciaTrie(prior, 1, nil, statecache.NewEmpty())
				pm := map[string]string{}
				if err := apply(bt, pm, []c03op{{false, "12", "a"}, {false, "1234", "b"}, {false, "5678", "c"}}); err != nil {
					fail(desc, "setup: %v", err)
					return
				}
				parent := NewMerklePatriciaTrie(NewLevelNodeDB(NewMemoryNodeDB(), prior, false), 1, bt.GetRoot(), statecache.NewEmpty())
				for ci, sq := range [][]c03op{s1, s2} {
					child := NewMerklePatriciaTrie(NewLevelNodeDB(NewMemoryNodeDB(), parent.GetNodeDB(), false), parent.GetVersion(), parent.GetRoot(), statecache.NewEmpty())
					cm := map[string]string{}
					for k, v := range pm {
						cm[k] = v
					}
					// operations that cannot apply (deleting an absent path) end the child's sequence early
					for _, o := range sq {
						if o.del {
							if _, present := cm[o.path]; !present {
								break
							}
						}
						if err := apply(child, cm, []c03op{o}); err != nil {
							fail(desc, "child %d: %v", ci, err)
							return
						}
					}
					if err := parent.MergeMPTChanges(child); err != nil {
						fail(desc, "merge of child %d: %v", ci, err)
						return
					}
					pm = cm
				}
				got, err := c03content(parent)
				if err != nil || !c03same(got, pm) {
					fail(desc, "the parent shows %s (%v), want %s", c03show(got), err, c03show(pm))
					return
				}
				fresh := NewMerklePatriciaTrie(NewLevelNodeDB(NewMemoryNodeDB(), parent.GetNodeDB(), false), parent.GetVersion(), parent.GetRoot(), statecache.NewEmpty())
				got, err = c03content(fresh)
				if err != nil || !c03same(got, pm) {
					fail(desc, "a fresh child opened on the parent shows %s (%v), want %s", c03show(got), err, c03show(pm))
				}
			}()
		}
	}
	fmt.Printf("GOCV-BOUNDED cases=%d failures=%d scope=\"base {12,1234,5678}; child A: all %d sequences of <= %d operations over insert/delete of %v, child B: every %dth of them; merge/discard decisions in both orders; views of parent, child and sibling against map models, stale merges rejected without a trace; plus children opened one after the other on a parent whose base content lies one store level below (sequences of <= 2 operations incl. writing a path back to its base value), each merged, then the parent and a fresh child compared with the model\"\n", cases, fails, len(seqs), depth, paths, sample)
	if fails > 0 {
		t.Fail()
	}
}
