package wmpt

// Bounded stand-in for C10 (proof production and verification are a relation between two recursive
// walks over a whole trie; tampering is a relation between two runs: neither is a per-call contract).
// Honest part: for every content below and every block number 1..total weight, the proof from
// GetBlockProof verifies on a fresh trie object, yields the producing trie's root hash and the value
// of the key whose cumulative-weight interval (in key order, computed here independently) contains
// the block. Forgery part: structured tampering of every honest proof; a forgery is a tampered proof
// that verifies for some block number, yields the trusted root, and a value other than the true
// owner's. Failure lines carry the tamper class first, so that known classes can be told apart.
// property: C10
// scope: 6 contents (1-7 keys of 32 bytes with shared prefixes, roots that are a branch, a short node over a value and a short node over a branch; weights 1..7, in memory and after Commit at collapse levels 0/1/2); all block numbers; tamper classes: reweight-on-path-child, reweight-off-path-siblings (move 1..3 units between two children of a branch, sum kept), reweight-on-path-child-and-its-short-node-claim, reweight-short, replace-leaf-value, swap-sibling-hashes, substitute-pair (from the same and from other proofs/tries), drop-pair, duplicate-pair, truncate, bit-flip (every byte, one bit)

import (
	"bytes"
	"encoding/binary"
	"errors"
	"fmt"
	"os"
	"sort"
	"testing"

	"github.com/0chain/common/core/util/storage"
	"github.com/fxamacker/cbor/v2"
)

type c10Store struct{ m map[string][]byte }

func (s *c10Store) Get(k []byte) ([]byte, error) {
	v, ok := s.m[string(k)]
	if !ok {
		return nil, errors.New("pebble: not found")
	}
	return v, nil
}
func (s *c10Store) Put(k, v []byte) error { s.m[string(k)] = append([]byte{}, v...); return nil }
func (s *c10Store) Delete(k []byte) error { delete(s.m, string(k)); return nil }
func (s *c10Store) Close()                {}
func (s *c10Store) NewBatch() storage.Batcher {
	return &c10Batch{s: s}
}

type c10Batch struct {
	s   *c10Store
	ops []func()
}

func (b *c10Batch) Put(k, v []byte) error {
	kk, vv := append([]byte{}, k...), append([]byte{}, v...)
	b.ops = append(b.ops, func() { b.s.m[string(kk)] = vv })
	return nil
}
func (b *c10Batch) Delete(k []byte) error {
	kk := append([]byte{}, k...)
	b.ops = append(b.ops, func() { delete(b.s.m, string(kk)) })
	return nil
}
func (b *c10Batch) Commit(bool) error {
	for _, op := range b.ops {
		op()
	}
	return nil
}

type c10kv struct {
	key    []byte
	value  string
	weight uint64
}

func c10key(bs ...byte) []byte {
	k := make([]byte, 32)
	copy(k, bs)
	return k
}

func TestGocvBoundedC10(t *testing.T) {
	thorough := os.Getenv("VERIF_TIER") == "thorough"
	cases := 0
	failsByClass := map[string]int{}
	fail := func(class, format string, a ...interface{}) {
		if failsByClass[class] < 2 {
			fmt.Printf("GOCV-FAIL %s: %s\n", class, fmt.Sprintf(format, a...))
		}
		failsByClass[class]++
	}
	contents := [][]c10kv{
		{{c10key(0x10), "a", 5}, {c10key(0x20), "b", 7}},
		{{c10key(0x10), "a", 5}, {c10key(0x20), "b", 7}, {c10key(0x30), "c", 3}},
		{{c10key(0x11), "a", 2}, {c10key(0x12, 0x34), "b", 3}, {c10key(0x12, 0x35), "c", 1}, {c10key(0x80), "d", 4}, {c10key(0x80, 0, 0, 1), "e", 2}},
		{{c10key(0x01), "a", 1}, {c10key(0x02), "b", 1}, {c10key(0x03), "c", 6}, {c10key(0x03, 0x01), "d", 2}, {c10key(0xf0), "e", 7}, {c10key(0xf0, 0xf0), "f", 3}, {c10key(0xff), "g", 2}},
		// tries whose root is not a branch: a single entry, and keys that share their first byte
		{{c10key(0x42), "solo", 4}},
		{{c10key(0xab, 0x01), "p", 2}, {c10key(0xab, 0x52), "q", 3}, {c10key(0xab, 0x57), "r", 2}},
	}
	type honest struct {
		block uint64
		proof []byte
		pairs [][]byte
	}
	var foreign [][]byte // pairs from other tries, for substitution
	for ci, kvs := range contents {
		sort.Slice(kvs, func(i, j int) bool { return bytes.Compare(kvs[i].key, kvs[j].key) < 0 })
		owner := func(b uint64) c10kv {
			var cum uint64
			for _, kv := range kvs {
				cum += kv.weight
				if b <= cum {
					return kv
				}
			}
			return c10kv{}
		}
		levels := []int{-1, 0, 1, 2}
		for _, lvl := range levels {
			db := &c10Store{m: map[string][]byte{}}
			tr := New(nil, db)
			var total uint64
			for _, kv := range kvs {
				if err := tr.Update(kv.key, []byte(kv.value), kv.weight); err != nil {
					t.Fatal(err)
				}
				total += kv.weight
			}
			if lvl >= 0 {
				b, err := tr.Commit(lvl)
				if err != nil {
					t.Fatal(err)
				}
				_ = b.Commit(false)
			}
			root := append([]byte{}, tr.Root()...)
			desc := fmt.Sprintf("content %d (%d keys, total weight %d, %s)", ci, len(kvs), total, map[bool]string{true: "in memory", false: fmt.Sprintf("committed at collapse level %d", lvl)}[lvl < 0])
			var hs []honest
			for b := uint64(1); b <= total; b++ {
				cases++
				key, proof, err := tr.GetBlockProof(b)
				if err != nil {
					fail("honest-proof", "%s: GetBlockProof(%d): %v", desc, b, err)
					continue
				}
				if !bytes.Equal(key, owner(b).key) {
					fail("honest-proof", "%s: block %d is owned by key %x, GetBlockProof names %x", desc, b, owner(b).key[:4], key[:4])
				}
				h, v, err := New(nil, &c10Store{m: map[string][]byte{}}).VerifyBlockProof(b, proof)
				if err != nil || !bytes.Equal(h, root) || string(v) != owner(b).value {
					fail("honest-proof", "%s: honest proof for block %d: VerifyBlockProof = (%x, %q, %v), want root %x and value %q", desc, b, h, v, err, root, owner(b).value)
				}
				pt := &PersistTrie{}
				if err := cbor.Unmarshal(proof, pt); err != nil {
					t.Fatal(err)
				}
				hp := honest{block: b, proof: proof}
				for _, p := range pt.Pairs {
					hp.pairs = append(hp.pairs, p.Value)
				}
				hs = append(hs, hp)
			}
			if lvl >= 0 && !thorough && lvl != 1 {
				continue // quick: tamper the in-memory trie and one committed form
			}
			// verifiers that already hold a root (one that has verified an honest proof of this trie, one
			// built from the trusted root): the hash returned must still be derived from the proof at hand
			if len(hs) > 0 {
				twin := New(nil, &c10Store{m: map[string][]byte{}})
				for _, kv := range kvs {
					if err := twin.Update(kv.key, []byte("evil-"+kv.value), kv.weight); err != nil {
						t.Fatal(err)
					}
				}
				twinRoot := append([]byte{}, twin.Root()...)
				verifiers := []struct {
					name string
					mk   func() *WeightedMerkleTrie
				}{
					{"a verifier that has already verified an honest proof of this trie", func() *WeightedMerkleTrie {
						v := New(nil, &c10Store{m: map[string][]byte{}})
						_, _, _ = v.VerifyBlockProof(hs[0].block, hs[0].proof)
						return v
					}},
					{"a verifier built from the trusted root", func() *WeightedMerkleTrie {
						return New(&hashNode{hash: append([]byte{}, root...), weight: total}, &c10Store{m: map[string][]byte{}})
					}},
				}
				for _, hp := range hs {
					_, tproof, err := twin.GetBlockProof(hp.block)
					if err != nil {
						continue
					}
					for _, vf := range verifiers {
						cases++
						h, v, err := vf.mk().VerifyBlockProof(hp.block, tproof)
						if err == nil && bytes.Equal(h, root) && string(v) != owner(hp.block).value {
							fail("verifier-with-a-root", "%s: on %s, the proof of block %d taken from another trie (same keys and weights, other values) verifies with the trusted root and value %q; the true owner's value is %q", desc, vf.name, hp.block, v, owner(hp.block).value)
						} else if err != nil || !bytes.Equal(h, twinRoot) {
							fail("verifier-with-a-root", "%s: on %s, an honest proof of another trie for block %d gives (%x, %v), want that trie's root %x", desc, vf.name, hp.block, h, err, twinRoot)
						}
						h, v, err = vf.mk().VerifyBlockProof(hp.block, hp.proof)
						if err != nil || !bytes.Equal(h, root) || string(v) != owner(hp.block).value {
							fail("verifier-with-a-root", "%s: on %s, the honest proof for block %d gives (%x, %q, %v), want root %x and value %q", desc, vf.name, hp.block, h, v, err, root, owner(hp.block).value)
						}
					}
				}
			}
			// try: verify a tampered pair list for every block number; report a forgery
			try := func(class string, from honest, pairs [][]byte, what string) {
				cases++
				pt := &PersistTrie{}
				for _, p := range pairs {
					pt.Pairs = append(pt.Pairs, &PersistTriePair{Value: p})
				}
				proof, err := cbor.Marshal(pt)
				if err != nil {
					return
				}
				if bytes.Equal(proof, from.proof) {
					return
				}
				for b := uint64(1); b <= total; b++ {
					func() {
						defer func() {
							if r := recover(); r != nil {
								fail(class+"-panic", "%s: %s (from the honest proof of block %d), verified for block %d: panic: %v", desc, what, from.block, b, r)
							}
						}()
						h, v, err := New(nil, &c10Store{m: map[string][]byte{}}).VerifyBlockProof(b, proof)
						if err == nil && bytes.Equal(h, root) && string(v) != owner(b).value {
							fail(class, "%s: %s (from the honest proof of block %d) verifies for block %d with the trusted root and value %q; the true owner's value is %q", desc, what, from.block, b, v, owner(b).value)
						}
					}()
				}
			}
			for _, hp := range hs {
				for pi, raw := range hp.pairs {
					base := PersistNodeBase{}
					if err := cbor.Unmarshal(raw, &base); err != nil {
						continue
					}
					with := func(newRaw []byte) [][]byte {
						out := append([][]byte{}, hp.pairs...)
						out[pi] = newRaw
						return out
					}
					if base.Branch != nil {
						// which child does the honest walk take at this level? the one whose hash/weight the next pair matches
						var idx []int
						for i, c := range base.Branch.Children {
							if len(c) >= hashWithWeightLength {
								idx = append(idx, i)
							}
						}
						onPath := -1
						if pi+1 < len(hp.pairs) {
							blk := hp.block
							_ = blk
							next, err := DeserializeNode(hp.pairs[pi+1])
							if err == nil {
								nh := next.Hash()
								for _, i := range idx {
									c := base.Branch.Children[i]
									if bytes.Equal(c[:32], nh) {
										onPath = i
									}
								}
							}
						}
						for _, i := range idx {
							for _, j := range idx {
								if i == j {
									continue
								}
								for d := uint64(1); d <= 3; d++ {
									wi := binary.BigEndian.Uint64(base.Branch.Children[i][32:40])
									if wi < d {
										continue
									}
									nb := PersistNodeBase{Branch: &PersistNodeBranch{Hash: base.Branch.Hash}}
									for _, c := range base.Branch.Children {
										nb.Branch.Children = append(nb.Branch.Children, append([]byte{}, c...))
									}
									binary.BigEndian.PutUint64(nb.Branch.Children[i][32:40], wi-d)
									wj := binary.BigEndian.Uint64(nb.Branch.Children[j][32:40])
									binary.BigEndian.PutUint64(nb.Branch.Children[j][32:40], wj+d)
									nr, _ := cbor.Marshal(&nb)
									class := "reweight-off-path-siblings"
									if i == onPath || j == onPath {
										class = "reweight-on-path-child"
									}
									try(class, hp, with(nr), fmt.Sprintf("proof element %d (branch): %d units of claimed weight moved from child %x to child %x", pi, d, i, j))
									// the same, made consistent one level down: if the next element is a short node, its own
									// claim of the weight below it is rewritten to what the branch now claims for that child
									if (i == onPath || j == onPath) && pi+1 < len(hp.pairs) {
										nx := PersistNodeBase{}
										if err := cbor.Unmarshal(hp.pairs[pi+1], &nx); err == nil && nx.Short != nil && len(nx.Short.Value) == hashWithWeightLength {
											ns := PersistNodeBase{Short: &PersistNodeShort{Key: nx.Short.Key, Hash: nx.Short.Hash, Value: append([]byte{}, nx.Short.Value...)}}
											copy(ns.Short.Value[32:], nb.Branch.Children[onPath][32:40])
											nsr, _ := cbor.Marshal(&ns)
											both := with(nr)
											both[pi+1] = nsr
											try("reweight-on-path-child-and-its-short-node-claim", hp, both, fmt.Sprintf("proof elements %d (branch) and %d (short node): %d units of claimed weight moved from child %x to child %x, the short node's own claim adjusted to match", pi, pi+1, d, i, j))
										}
									}
								}
							}
						}
						for a := 0; a < len(idx); a++ {
							for b := a + 1; b < len(idx); b++ {
								nb := PersistNodeBase{Branch: &PersistNodeBranch{Hash: base.Branch.Hash}}
								for _, c := range base.Branch.Children {
									nb.Branch.Children = append(nb.Branch.Children, append([]byte{}, c...))
								}
								i, j := idx[a], idx[b]
								nb.Branch.Children[i], nb.Branch.Children[j] = nb.Branch.Children[j], nb.Branch.Children[i]
								nr, _ := cbor.Marshal(&nb)
								try("swap-sibling-hashes", hp, with(nr), fmt.Sprintf("proof element %d (branch): children %x and %x swapped", pi, i, j))
							}
						}
					}
					if base.Value != nil {
						nv := PersistNodeBase{Value: &PersistNodeValue{Value: []byte("mallory"), Hash: base.Value.Hash, Weight: base.Value.Weight}}
						nr, _ := cbor.Marshal(&nv)
						try("replace-leaf-value", hp, with(nr), fmt.Sprintf("proof element %d (value): value bytes replaced, weight and claimed hash kept", pi))
					}
					if base.Short != nil && len(base.Short.Value) == hashWithWeightLength {
						for _, d := range []int64{-2, -1, 1, 2} {
							w := int64(binary.BigEndian.Uint64(base.Short.Value[32:]))
							if w+d < 0 {
								continue
							}
							ns := PersistNodeBase{Short: &PersistNodeShort{Key: base.Short.Key, Hash: base.Short.Hash, Value: append([]byte{}, base.Short.Value...)}}
							binary.BigEndian.PutUint64(ns.Short.Value[32:], uint64(w+d))
							nr, _ := cbor.Marshal(&ns)
							try("reweight-short", hp, with(nr), fmt.Sprintf("proof element %d (short node): claimed weight changed by %d", pi, d))
						}
					}
					// substitution of this element by elements of other proofs of this trie and of other tries
					for _, other := range hs {
						for _, op := range other.pairs {
							if !bytes.Equal(op, raw) {
								try("substitute-pair", hp, with(op), fmt.Sprintf("proof element %d replaced by an element of the proof of block %d", pi, other.block))
							}
						}
					}
					if thorough {
						for _, op := range foreign {
							try("substitute-pair", hp, with(op), fmt.Sprintf("proof element %d replaced by an element of a proof from another trie", pi))
						}
					}
					// drop / duplicate
					drop := append(append([][]byte{}, hp.pairs[:pi]...), hp.pairs[pi+1:]...)
					try("drop-pair", hp, drop, fmt.Sprintf("proof element %d dropped", pi))
					dup := append(append(append([][]byte{}, hp.pairs[:pi+1]...), raw), hp.pairs[pi+1:]...)
					try("duplicate-pair", hp, dup, fmt.Sprintf("proof element %d duplicated", pi))
					try("truncate", hp, hp.pairs[:pi], fmt.Sprintf("proof truncated to %d elements", pi))
					if pi == len(hp.pairs)-1 {
						// elements appended behind a complete honest proof: a forged value node, and the leaf of another block's proof
						fv := PersistNodeBase{Value: &PersistNodeValue{Value: []byte("mallory"), Weight: total}}
						fr, _ := cbor.Marshal(&fv)
						try("append-pair", hp, append(append([][]byte{}, hp.pairs...), fr), "a forged value node appended behind the honest proof")
						for _, other := range hs {
							if other.block != hp.block && len(other.pairs) > 0 {
								try("append-pair", hp, append(append([][]byte{}, hp.pairs...), other.pairs[len(other.pairs)-1]), fmt.Sprintf("the leaf of the proof of block %d appended behind the honest proof", other.block))
							}
						}
					}
					// bit flips
					step := 1
					if !thorough {
						step = 3
					}
					for bi := 0; bi < len(raw); bi += step {
						nr := append([]byte{}, raw...)
						nr[bi] ^= 1 << uint(bi%8)
						try("bit-flip", hp, with(nr), fmt.Sprintf("proof element %d: one bit of byte %d flipped", pi, bi))
					}
				}
			}
			for _, hp := range hs {
				foreign = append(foreign, hp.pairs...)
			}
			if len(foreign) > 40 {
				foreign = foreign[len(foreign)-40:]
			}
		}
	}
	total := 0
	var classes []string
	for c, n := range failsByClass {
		total += n
		classes = append(classes, fmt.Sprintf("%s=%d", c, n))
	}
	sort.Strings(classes)
	fmt.Printf("GOCV-BOUNDED cases=%d failures=%d scope=\"6 contents (branch, single-entry and shared-prefix roots) x {in memory, committed at collapse 0/1/2}: honest proofs for every block, also on verifiers that already hold a root (reused, or built from the trusted root) together with honest proofs of a twin trie with other values; tampered proofs (reweight on/off path, reweight short, replaced leaf value, swap, substitute, drop, duplicate, truncate, append, bit flips) verified for every block number; failing classes: %v\"\n", cases, total, classes)
	if total > 0 {
		t.Fail()
	}
}
