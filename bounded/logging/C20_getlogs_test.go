package logging

// Bounded stand-in for the read side of C20 (GetLogs walks the ring through a closure handed to
// container/ring.Do, which is outside the contract subset): histories of n writes are run on a real
// MemLogger and the returned slice is compared with the model "the last min(n, BufferSize) entries,
// newest first". Derived loggers (With) are included only in the shape that holds on the pinned tree
// (all cores derived before the first write, one writer core at a time per history): the cursor
// disagreement of derived cores is the recorded known finding of C20 and has its own witness.
// property: C20
// scope: n in {0,1,2,7,1023,1024,1025,2047,2048,2053,3100} writes through the root core; the same for n <= 1024 through a core derived with With before any write; concurrent 4x100 and 8x200 writers on the root core

import (
	"fmt"
	"sync"
	"testing"

	"go.uber.org/zap"
	"go.uber.org/zap/zapcore"
)

func c20enc() zapcore.Encoder {
	return zapcore.NewJSONEncoder(zap.NewProductionEncoderConfig())
}

func TestGocvBoundedC20(t *testing.T) {
	cases, fails := 0, 0
	fail := func(format string, a ...interface{}) {
		if fails < 5 {
			fmt.Printf("GOCV-FAIL %s\n", fmt.Sprintf(format, a...))
		}
		fails++
	}
	// the fields written with entry i: the count varies so that a ring cell is reused by entries with
	// fewer (and with more) fields than its previous occupant
	fieldsFor := func(i int) []zapcore.Field {
		all := []zapcore.Field{zap.Int("seq", i), zap.String("blk", fmt.Sprintf("b%d", i))}
		k := i % 3
		if i%2 == 0 {
			k = 2 - (i/BufferSize)%3
		}
		return all[:k]
	}
	check := func(name string, ml *MemLogger, n int) {
		logs := ml.GetLogs()
		want := n
		if want > BufferSize {
			want = BufferSize
		}
		if len(logs) != want {
			fail("%s: after %d writes GetLogs returned %d entries, want %d", name, n, len(logs), want)
			return
		}
		for i, e := range logs {
			if e == nil {
				fail("%s: after %d writes entry %d is nil", name, n, i)
				return
			}
			if wantMsg := fmt.Sprintf("m%d", n-1-i); e.Message != wantMsg {
				fail("%s: after %d writes entry %d is %q, want %q (newest first)", name, n, i, e.Message, wantMsg)
				return
			}
			want := fieldsFor(n - 1 - i)
			same := len(e.Context) == len(want) && e.Level == zapcore.InfoLevel && e.LoggerName == "lg"
			for j := 0; same && j < len(want); j++ {
				same = e.Context[j].Equals(want[j])
			}
			if !same {
				fail("%s: after %d writes entry %d (%q) is returned with level %v, logger %q and fields %v; it was written with level info, logger \"lg\" and fields %v", name, n, i, e.Message, e.Level, e.LoggerName, e.Context, want)
				return
			}
		}
	}
	sizes := []int{0, 1, 2, 7, 1023, 1024, 1025, 2047, 2048, 2053, 3100}
	for _, derived := range []bool{false, true} {
		for _, n := range sizes {
			if derived && n > BufferSize {
				continue // the derived core's private cursor wraps while the root's does not: the recorded known finding
			}
			cases++
			func() {
				defer func() {
					if r := recover(); r != nil {
						fmt.Printf("GOCV-PANIC n=%d derived=%v: %v\n", n, derived, r)
						fails++
					}
				}()
				ml := NewMemLogger(c20enc(), zapcore.DebugLevel)
				var core zapcore.Core = ml.GetCore()
				name := "root core"
				if derived {
					core = core.With([]zapcore.Field{zap.String("k", "v")})
					name = "core derived before the first write"
				}
				for i := 0; i < n; i++ {
					if err := core.Write(zapcore.Entry{Message: fmt.Sprintf("m%d", i), Level: zapcore.InfoLevel, LoggerName: "lg"}, fieldsFor(i)); err != nil {
						fail("%s: write %d failed: %v", name, i, err)
					}
				}
				check(name, ml, n)
			}()
		}
	}
	for _, shape := range [][2]int{{4, 100}, {8, 200}} {
		cases++
		ml := NewMemLogger(c20enc(), zapcore.DebugLevel)
		core := ml.GetCore()
		var wg sync.WaitGroup
		for w := 0; w < shape[0]; w++ {
			wg.Add(1)
			go func(w int) {
				defer wg.Done()
				for i := 0; i < shape[1]; i++ {
					_ = core.Write(zapcore.Entry{Message: fmt.Sprintf("w%d-%d", w, i)}, nil)
				}
			}(w)
		}
		wg.Wait()
		total := shape[0] * shape[1]
		logs := ml.GetLogs()
		want := total
		if want > BufferSize {
			want = BufferSize
		}
		if len(logs) != want {
			fail("concurrent %dx%d: GetLogs returned %d entries, want %d", shape[0], shape[1], len(logs), want)
			continue
		}
		seen := map[string]int{}
		last := map[int]int{}
		for w := 0; w < shape[0]; w++ {
			last[w] = shape[1]
		}
		for _, e := range logs {
			if e == nil {
				fail("concurrent %dx%d: nil entry", shape[0], shape[1])
				break
			}
			seen[e.Message]++
			var w, i int
			fmt.Sscanf(e.Message, "w%d-%d", &w, &i)
			if i >= last[w] {
				fail("concurrent %dx%d: entries of writer %d not newest first (%d after %d)", shape[0], shape[1], w, i, last[w])
				break
			}
			last[w] = i
		}
		for m, c := range seen {
			if c != 1 {
				fail("concurrent %dx%d: entry %s retained %d times", shape[0], shape[1], m, c)
				break
			}
		}
		if total <= BufferSize && len(seen) != total {
			fail("concurrent %dx%d: %d distinct entries retained, want %d", shape[0], shape[1], len(seen), total)
		}
	}
	fmt.Printf("GOCV-BOUNDED cases=%d failures=%d scope=\"root core: n writes, each with 0..2 fields (a cell is reused by entries with fewer and with more fields than its previous occupant); message, level, logger name and fields of every returned entry compared with what was written; core derived before the first write: n <= BufferSize writes; for n in %v; concurrent writers 4x100, 8x200; BufferSize=%d\"\n", cases, fails, sizes, BufferSize)
	if fails > 0 {
		t.Fail()
	}
}
