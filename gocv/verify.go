package main

// Verification of one function against its contract; lemma VCs; obligation discharge.

import (
	"fmt"
	"go/constant"
	"go/types"
	"golang.org/x/tools/go/ssa/ssautil"
	"os"
	"path/filepath"
	"sort"
	"strings"
	"sync"
	"time"

	"golang.org/x/tools/go/ssa"
)

type FuncReport struct {
	Fn            string
	Pkg           string
	Mode          string
	Obligations   []*Obligation
	Covers        []*Obligation // return-path reachability (vacuity guard)
	Unsupported   []string
	Uncontracted  []string
	Inlined       []string
	ContractsUsed []string
	Aborted       string
	Paths         int
	Returns       int
	ParamSyms     map[string]string
	ParamOrder    []string
	ResultSyms    []string
	fnObj         *ssa.Function
	Skipped       int
	NObl          int
	IsTrusted     bool
	OnlyPat       string
	fc            *FuncContract
}

func (e *Engine) newExec(fn *ssa.Function, fc *FuncContract) *Exec {
	mode := "int"
	if fc != nil && fc.Mode != "" {
		mode = fc.Mode
	}
	return &Exec{eng: e, fn: fn, fc: fc, mode: mode, heapSorts: map[string]string{}, unsupported: map[string]bool{},
		uncontracted: map[string]bool{}, inlined: map[string]bool{}, contractsUsed: map[string]bool{},
		loopCache: map[*ssa.Function]map[*ssa.BasicBlock]*loopInfo{}, nameCache: map[*ssa.Function]map[ssa.Instruction]string{},
		maxPaths: 6000, params: map[string]Val{}, coverDone: map[string]bool{}, entryLocks: map[string]string{}}
}

// globalFacts: package-level interface variables initialised by a call in the package
// initialiser (error sentinels) are non-nil. Assumption A-globals: they are never reassigned.
func (x *Exec) globalFacts(s *State, pkg *ssa.Package) {
	if pkg == nil {
		return
	}
	init := pkg.Func("init")
	if init == nil {
		return
	}
	for _, b := range init.Blocks {
		for _, in := range b.Instrs {
			st, ok := in.(*ssa.Store)
			if !ok {
				continue
			}
			g, ok := st.Addr.(*ssa.Global)
			if !ok {
				continue
			}
			// var X = []byte("literal"): length and contents are known (A-globals: never mutated)
			if cv, isConv := st.Val.(*ssa.Convert); isConv {
				if c, isConst := cv.X.(*ssa.Const); isConst && c.Value != nil && isString(c.Type()) {
					if sl, isSl := cv.Type().Underlying().(*types.Slice); isSl && len(constant.StringVal(c.Value)) <= 64 {
						lit := constant.StringVal(c.Value)
						h := x.heapGet(s, x.globalKey(g), SSlice)
						E := x.heapGet(s, x.elemKey(sl.Elem()), SArr(SInt, SArr(SInt, x.sortOf(sl.Elem()))))
						s.assume(And(Eq(slLen(h), IntLit(int64(len(lit)))), Not(Eq(slArr(h), IntLit(0))), ILe(slLen(h), slCap(h)), ILe(IntLit(0), slOff(h))))
						if x.sortOf(sl.Elem()) == SInt {
							for i := 0; i < len(lit); i++ {
								s.assume(Eq(Select(Select(E, slArr(h)), IAdd(slOff(h), IntLit(int64(i)))), IntLit(int64(lit[i]))))
							}
						}
					}
				}
			}
			// var a, b = f(...): if f has a contract whose postconditions speak about its results only,
			// they hold of the globals (A-globals: assigned once by the package initialiser; checked:
			// no other store to them in the package)
			if ex, isEx := st.Val.(*ssa.Extract); isEx {
				if call, isCall := ex.Tuple.(*ssa.Call); isCall {
					x.globalsFromCall(s, pkg, init, call)
				}
				continue
			}
			// var g = &T{...}: the global holds a non-nil pointer (A-globals: assigned once)
			if al, isAlloc := st.Val.(*ssa.Alloc); isAlloc && al.Heap && x.storedOnlyInInit(pkg, init, g) {
				if _, isPtr := g.Type().(*types.Pointer).Elem().Underlying().(*types.Pointer); isPtr {
					h := x.heapGet(s, x.globalKey(g), SInt)
					s.assume(Not(Eq(h, IntLit(0))))
				}
				continue
			}
			if _, isCall := st.Val.(*ssa.Call); !isCall {
				if _, isMI := st.Val.(*ssa.MakeInterface); !isMI {
					continue
				}
			}
			elem := g.Type().(*types.Pointer).Elem()
			if _, isI := elem.Underlying().(*types.Interface); !isI {
				continue
			}
			_ = elem
			h := x.heapGet(s, x.globalKey(g), SIface)
			s.assume(Not(Eq(ifTag(h), IntLit(0))))
		}
	}
}

// globalsFromCall assumes the result-only postconditions of a contracted callee for the globals
// the package initialiser assigns from one call: var a, b = f(...).
func (x *Exec) globalsFromCall(s *State, pkg *ssa.Package, init *ssa.Function, call *ssa.Call) {
	if x.globalsDone == nil {
		x.globalsDone = map[*ssa.Call]bool{}
	}
	if x.globalsDone[call] {
		return
	}
	x.globalsDone[call] = true
	callee := call.Common().StaticCallee()
	if callee == nil {
		return
	}
	fc := x.contractFor(callee)
	if fc == nil || len(fc.Results) == 0 {
		return
	}
	// which global receives which result
	res := map[int]*ssa.Global{}
	for _, b := range init.Blocks {
		for _, in := range b.Instrs {
			st, ok := in.(*ssa.Store)
			if !ok {
				continue
			}
			ex, ok := st.Val.(*ssa.Extract)
			if !ok || ex.Tuple != ssa.Value(call) {
				continue
			}
			if g, ok := st.Addr.(*ssa.Global); ok {
				res[ex.Index] = g
			}
		}
	}
	// assigned once: no store to these globals outside the initialiser
	for _, g := range res {
		if !x.storedOnlyInInit(pkg, init, g) {
			return
		}
	}
	names := map[string]Val{}
	for i, rn := range fc.Results {
		g, ok := res[i]
		if !ok {
			return // a result that is not kept in a global: nothing can be said about the others
		}
		elem := g.Type().(*types.Pointer).Elem()
		names[rn] = tv(x.heapGet(s, x.globalKey(g), x.sortOf(elem)), elem)
	}
	env := &SpecEnv{x: x, s: s, names: names, fnPkg: pkgOf(callee)}
	for _, en := range fc.Ensures {
		if exprMentionsOnly(en.E, names) {
			if t, err := env.boolExpr(en.E); err == nil {
				s.assume(t)
			}
		}
	}
}

// storedOnlyInInit reports whether no function of the program other than the package initialiser
// stores to g (methods and closures included).
func (x *Exec) storedOnlyInInit(pkg *ssa.Package, init *ssa.Function, g *ssa.Global) bool {
	e := x.eng
	if e.globalStores == nil {
		e.globalStores = map[*ssa.Global]bool{}
		for fn := range ssautil.AllFunctions(e.prog) {
			if fn.Name() == "init" && fn.Signature.Recv() == nil && fn.Parent() == nil {
				continue
			}
			for _, b := range fn.Blocks {
				for _, in := range b.Instrs {
					if st, ok := in.(*ssa.Store); ok {
						if gg, ok := st.Addr.(*ssa.Global); ok {
							e.globalStores[gg] = true
						}
					}
				}
			}
		}
	}
	return !e.globalStores[g]
}

// exprMentionsOnly reports whether every identifier of e is one of names (or a constant like nil).
func exprMentionsOnly(e *Expr, names map[string]Val) bool {
	if e == nil {
		return true
	}
	if e.Kind == eIdent {
		if _, ok := names[e.Name]; !ok && e.Name != "nil" && e.Name != "true" && e.Name != "false" {
			return false
		}
	}
	if e.Kind == eCall || e.Kind == eQuant {
		return false
	}
	for _, a := range e.Args {
		if !exprMentionsOnly(a, names) {
			return false
		}
	}
	return true
}

func (e *Engine) VerifyFunction(fn *ssa.Function, fc *FuncContract) *FuncReport {
	x := e.newExec(fn, fc)
	rep := &FuncReport{Fn: x.fnName(fn), Mode: x.mode, ParamSyms: map[string]string{}, fnObj: fn, fc: fc}
	if fn.Pkg != nil {
		rep.Pkg = fn.Pkg.Pkg.Path()
	}
	defer func() {
		if r := recover(); r != nil {
			rep.Aborted = fmt.Sprintf("engine panic: %v", r)
			if os.Getenv("GOCV_DEBUG") != "" {
				panic(r)
			}
		}
	}()
	s := &State{heap: map[string]*Term{}, locks: map[string]string{}, ghost: map[string]*Term{}, hbound: map[string]*Term{}}
	s.alloc = Var("alloc!0", SInt)
	s.assume(ILt(IntLit(0), s.alloc))
	fr := &Frame{fn: fn, vals: map[ssa.Value]Val{}, vars: map[string]Val{}, visited: map[*ssa.BasicBlock]bool{}}
	s.frames = []*Frame{fr}
	for pi, p := range fn.Params {
		v := Var("p$"+p.Name(), x.sortOf(p.Type()))
		x.assumeTyped(s, v, p.Type())
		val := tv(v, p.Type())
		fr.vals[p] = val
		fr.vars[p.Name()] = val
		x.params[p.Name()] = val
		x.paramOrder = append(x.paramOrder, p.Name())
		// a contract that lists its parameters binds them by position, so renaming a parameter in
		// the code does not detach the contract (both names are usable)
		if fc != nil && !fc.Extern && len(fc.Params) == len(fn.Params) {
			if cn := fc.Params[pi].Name; cn != "" && cn != p.Name() {
				fr.vars[cn] = val
				x.params[cn] = val
			}
		}
		// pointer receivers are non-nil (checked at every static call site as pre:...#recv-nonnil)
		if recv := fn.Signature.Recv(); recv != nil && p == fn.Params[0] {
			if _, isPtr := recv.Type().Underlying().(*types.Pointer); isPtr && (fc == nil || fc.Opts["nilrecv"] == "") {
				s.assume(Not(Eq(v, IntLit(0))))
			}
		}
		rep.ParamSyms[p.Name()] = v.Op
		rep.ParamOrder = append(rep.ParamOrder, p.Name())
	}
	for i, fv := range fn.FreeVars {
		// closures verified standalone: free variables are arbitrary pointers to cells
		v := Var("fv$"+fv.Name(), x.sortOf(fv.Type()))
		x.assumeTyped(s, v, fv.Type())
		s.assume(ILt(IntLit(0), v))
		fr.vals[fv] = tv(v, fv.Type())
		if p, ok := fv.Type().(*types.Pointer); ok {
			fr.vars["&"+fv.Name()] = Val{LV: &LValue{Kind: lvCell, Ref: v, Typ: p.Elem()}, GoT: p.Elem()}
		}
		if !capturedByRef(fn, i) {
			// captured by value: the contract may name it like a parameter
			x.params[fv.Name()] = tv(v, fv.Type())
		} else if p, ok := fv.Type().(*types.Pointer); ok {
			// captured by reference: the name denotes the variable's value at entry
			if cur, err := x.load(s, &LValue{Kind: lvCell, Ref: v, Typ: p.Elem()}); err == nil {
				x.assumeTyped(s, cur, p.Elem())
				x.params[fv.Name()] = tv(cur, p.Elem())
			}
		}
	}
	x.globalFacts(s, fn.Pkg)
	if fn.Pkg == nil && fn.Parent() != nil {
		x.globalFacts(s, fn.Parent().Pkg)
	}
	x.entryAlloc = s.alloc
	// requires
	if fc != nil {
		env := &SpecEnv{x: x, s: s, names: x.params, fnPkg: pkgOf(fn)}
		for _, rq := range fc.Requires {
			t, err := env.boolExpr(rq.E)
			if err != nil {
				rep.Aborted = fmt.Sprintf("requires %s: %v", rq.Name, err)
				return rep
			}
			s.assume(t)
		}
		for _, h := range fc.Holds {
			id, err := x.lockIDOfExpr(s, h.E, x.params, pkgOf(fn))
			if err != nil {
				rep.Aborted = fmt.Sprintf("holds: %v", err)
				return rep
			}
			s.locks[id] = h.Mode
			x.entryLocks[id] = h.Mode
		}
		if fc.HasAssign {
			x.checkFrames = true
			for _, a := range append(append([]*Clause{}, fc.Assigns...), fc.BodyAssigns...) {
				locs, err := env.assignLocs(a.E)
				if err != nil {
					rep.Aborted = fmt.Sprintf("assigns: %v", err)
					return rep
				}
				x.assignLocs = append(x.assignLocs, locs...)
			}
		}
	}
	x.entryHeap = map[string]*Term{}
	for k, v := range s.heap {
		x.entryHeap[k] = v
	}
	if len(fn.Blocks) == 0 {
		rep.Aborted = "function has no body"
		return rep
	}
	rn := x.resultNames(fn, fc)
	x.runBlock(s, fn.Blocks[0], nil, func(s2 *State, results []Val) {
		x.returns++
		// cover: this return path is feasible (vacuity guard, evaluated lazily)
		rep.Covers = append(rep.Covers, &Obligation{Name: "cover:return", Fn: rep.Fn, Class: "cover", Asserts: s2.assertList(), Path: strings.Join(s2.trace, ",")})
		if len(rep.ResultSyms) == 0 {
			for range results {
				rep.ResultSyms = append(rep.ResultSyms, "")
			}
		}
		if fc == nil {
			return
		}
		env := &SpecEnv{x: x, s: s2, names: map[string]Val{}, fnPkg: pkgOf(fn)}
		for n, v := range x.params {
			env.names[n] = v
		}
		for i, n := range rn {
			if i < len(results) {
				r := results[i]
				if r.T != nil {
					// name results so that models show them
					r.T = x.name(s2, "ret$"+n, r.T)
				}
				env.names[n] = r
			}
		}
		env.old = &SpecEnv{x: x, s: s2, names: x.params, heap: x.entryHeap, alloc: x.entryAlloc, fnPkg: pkgOf(fn)}
		env.entryAlloc = x.entryAlloc
		for _, en := range fc.Ensures {
			t, err := env.boolExpr(en.E)
			if err != nil {
				x.abort(fmt.Sprintf("ensures %s: %v", en.Name, err))
				return
			}
			x.emit(s2, "ensures", "post#"+en.Name, t, en.Text)
		}
		x.checkFreshInvs(s2)
		for id, m := range s2.locks {
			if x.entryLocks[id] == m {
				continue // held by the caller (holds clause)
			}
			x.emit(s2, "lock", "lock-held-at-return:"+id, TFalse, "lock "+id+" still held ("+m+") at return")
		}
	})
	rep.Obligations = x.obls
	rep.Paths = x.paths + 1
	rep.Returns = x.returns
	rep.Aborted = x.aborted
	rep.Unsupported = sortedKeys(x.unsupported)
	rep.Uncontracted = sortedKeys(x.uncontracted)
	rep.Inlined = sortedKeys(x.inlined)
	rep.ContractsUsed = sortedKeys(x.contractsUsed)
	// contract sanity: every loop spec must refer to an existing loop
	if fc != nil {
		loops := x.loopsOf(fn)
		for n := range fc.Loops {
			found := false
			for _, li := range loops {
				if li.ordinal == n {
					found = true
				}
			}
			if !found && !x.spareUsed[n] {
				rep.Unsupported = append(rep.Unsupported, fmt.Sprintf("contract names loop %d but the function has %d loop(s)", n, len(loops)))
			}
		}
	}
	for _, o := range rep.Obligations {
		o.Inputs = rep.ParamSyms
	}
	return rep
}

// ---------- lemmas ----------

// RegisterAxioms translates `axiom` statements and the closed statements of all lemmas; a lemma is
// available as an assumption to function VCs and to lemmas declared after it.
func (e *Engine) RegisterAxioms() error {
	reg := func(name string, t *Term, order int) {
		vars := map[string]string{}
		apps := map[string]*Term{}
		t.collect(vars, apps, map[string]bool{})
		n := 0
		for fn := range apps {
			if strings.HasPrefix(fn, "sp$") {
				e.reg.AddAxiom(fn, name, t, order)
				n++
			}
		}
		if n == 0 {
			e.warn("axiom %s mentions no spec function and is never used", name)
		}
	}
	x := e.newExec(nil, nil)
	s := &State{heap: map[string]*Term{}, locks: map[string]string{}, ghost: map[string]*Term{}, hbound: map[string]*Term{}}
	s.alloc = Var("alloc!0", SInt)
	for _, ax := range e.cs.Axioms {
		env := &SpecEnv{x: x, s: s, names: map[string]Val{}, pure: true}
		t, err := env.boolExpr(ax.E)
		if err != nil {
			return fmt.Errorf("axiom %s: %v", ax.Name, err)
		}
		reg("axiom:"+ax.Name, t, 0)
	}
	for i, lm := range e.cs.Lemmas {
		x.mode = lm.Mode
		env := &SpecEnv{x: x, s: s, names: map[string]Val{}, bound: map[string]Val{}, pure: true}
		var bs []*Term
		for _, p := range lm.Params {
			srt, gt, err := env.parseSort(p.Type)
			if err != nil {
				return fmt.Errorf("lemma %s: %v", lm.Name, err)
			}
			b := Var("lq$"+p.Name, srt)
			bs = append(bs, b)
			env.bound[p.Name] = Val{T: b, GoT: gt}
		}
		var pre, post []*Term
		for _, r := range lm.Requires {
			t, err := env.boolExpr(r.E)
			if err != nil {
				return fmt.Errorf("lemma %s: %v", lm.Name, err)
			}
			pre = append(pre, t)
		}
		for _, en := range lm.Ensures {
			t, err := env.boolExpr(en.E)
			if err != nil {
				return fmt.Errorf("lemma %s: %v", lm.Name, err)
			}
			post = append(post, t)
		}
		if lm.Induction != "" {
			mexpr, err := ParseExpr(lm.Induction)
			if err != nil {
				return fmt.Errorf("lemma %s: %v", lm.Name, err)
			}
			mv, err := env.eval(mexpr)
			if err != nil {
				return fmt.Errorf("lemma %s: %v", lm.Name, err)
			}
			pre = append(pre, ILe(IntLit(0), mv.T))
		}
		reg("lemma:"+lm.Name, Forall(bs, Implies(And(pre...), And(post...))), i+1)
	}
	return nil
}

func (e *Engine) LemmaObligations(lm *Lemma) ([]*Obligation, error) {
	x := e.newExec(nil, nil)
	x.mode = lm.Mode
	s := &State{heap: map[string]*Term{}, locks: map[string]string{}, ghost: map[string]*Term{}, hbound: map[string]*Term{}}
	s.alloc = Var("alloc!0", SInt)
	env := &SpecEnv{x: x, s: s, names: map[string]Val{}, pure: true}
	for _, p := range lm.Params {
		srt, gt, err := env.parseSort(p.Type)
		if err != nil {
			return nil, err
		}
		env.names[p.Name] = Val{T: Var("lm$"+p.Name, srt), GoT: gt}
	}
	var pre []*Term
	for _, r := range lm.Requires {
		t, err := env.boolExpr(r.E)
		if err != nil {
			return nil, fmt.Errorf("lemma %s requires: %v", lm.Name, err)
		}
		pre = append(pre, t)
	}
	// hints: instances of other lemmas (or of this one at smaller arguments: induction hypothesis)
	var hints []*Term
	for _, u := range lm.Uses {
		if u.Kind != eCall {
			return nil, fmt.Errorf("lemma %s: use needs a lemma application", lm.Name)
		}
		var target *Lemma
		for _, l2 := range e.cs.Lemmas {
			if l2.Name == u.Name {
				target = l2
			}
		}
		if target == nil {
			return nil, fmt.Errorf("lemma %s: unknown lemma %s", lm.Name, u.Name)
		}
		inst, err := e.lemmaInstance(env, target, u.Args)
		if err != nil {
			return nil, err
		}
		hints = append(hints, inst)
	}
	var out []*Obligation
	if lm.Induction != "" {
		// well-founded induction on a natural-number measure (a parameter or an expression over the
		// parameters): the statement is available for all arguments with a smaller measure
		mexpr, err := ParseExpr(lm.Induction)
		if err != nil {
			return nil, fmt.Errorf("lemma %s: induction measure: %v", lm.Name, err)
		}
		mcur, err := env.eval(mexpr)
		if err != nil {
			return nil, fmt.Errorf("lemma %s: induction measure: %v", lm.Name, err)
		}
		sub := env.sub()
		var bs []*Term
		for _, p := range lm.Params {
			srt, gt, _ := env.parseSort(p.Type)
			b := Var("ih$"+p.Name, srt)
			bs = append(bs, b)
			sub.bound[p.Name] = Val{T: b, GoT: gt}
		}
		sub.names = map[string]Val{}
		var ihPre, ihPost []*Term
		for _, r := range lm.Requires {
			t, err := sub.boolExpr(r.E)
			if err != nil {
				return nil, err
			}
			ihPre = append(ihPre, t)
		}
		for _, en := range lm.Ensures {
			t, err := sub.boolExpr(en.E)
			if err != nil {
				return nil, err
			}
			ihPost = append(ihPost, t)
		}
		mih, err := sub.eval(mexpr)
		if err != nil {
			return nil, err
		}
		body := Implies(And(ILe(IntLit(0), mih.T), ILt(mih.T, mcur.T), And(ihPre...)), And(ihPost...))
		hints = append(hints, Forall(bs, body))
		if _, isParam := env.names[lm.Induction]; isParam {
			// explicit instance at k-1 with the other parameters unchanged (helps when triggers fail)
			m := map[string]*Term{}
			for i, p := range lm.Params {
				if p.Name == lm.Induction {
					m[bs[i].Op] = ISub(mcur.T, IntLit(1))
				} else {
					m[bs[i].Op] = env.names[p.Name].T
				}
			}
			hints = append(hints, body.Subst(m))
		}
		pre = append(pre, ILe(IntLit(0), mcur.T))
	}
	// vacuity guard: the premises alone (no hints, no earlier lemmas) must not be contradictory
	out = append(out, &Obligation{Name: "lemma:" + lm.Name + "#premises-satisfiable", Fn: "lemma " + lm.Name, Class: "cover",
		Asserts: append(s.assertList(), pre...), Goal: nil, Note: "requires of the lemma are satisfiable (checked without axioms)", AxiomOrder: -1})
	for _, en := range lm.Ensures {
		t, err := env.boolExpr(en.E)
		if err != nil {
			return nil, fmt.Errorf("lemma %s ensures: %v", lm.Name, err)
		}
		as := append(append(s.assertList(), pre...), hints...)
		order := 0
		for i, l2 := range e.cs.Lemmas {
			if l2 == lm {
				order = i + 1
			}
		}
		out = append(out, &Obligation{Name: "lemma:" + lm.Name + "#" + en.Name, Fn: "lemma " + lm.Name, Class: "lemma", Asserts: as, Goal: t, Note: en.Text, AxiomOrder: order})
	}
	return out, nil
}

// lemmaInstance: (requires => ensures) of a lemma at given argument expressions.
func (e *Engine) lemmaInstance(env *SpecEnv, lm *Lemma, args []*Expr) (*Term, error) {
	if len(args) != len(lm.Params) {
		return nil, fmt.Errorf("lemma %s expects %d arguments", lm.Name, len(lm.Params))
	}
	sub := env.sub()
	for i, p := range lm.Params {
		v, err := env.eval(args[i])
		if err != nil {
			return nil, err
		}
		sub.bound[p.Name] = v
	}
	sub.names = map[string]Val{}
	var pre, post []*Term
	for _, r := range lm.Requires {
		t, err := sub.boolExpr(r.E)
		if err != nil {
			return nil, err
		}
		pre = append(pre, t)
	}
	for _, en := range lm.Ensures {
		t, err := sub.boolExpr(en.E)
		if err != nil {
			return nil, err
		}
		post = append(post, t)
	}
	return Implies(And(pre...), And(post...)), nil
}

// ---------- discharge ----------

type OblResult struct {
	Name      string
	Fn        string
	Class     string
	Status    string // discharged | failed | undecided
	Instances int
	Secs      float64
	Solvers   map[string]int
	Model     map[string]string
	Raw       string
	File      string
	Note      string
	Inputs    map[string]string
	Path      string
	Single    bool
}

func dischargeAll(reg *Registry, obls []*Obligation, dir string, timeout int, second bool, workers int) []*OblResult {
	type job struct {
		o   *Obligation
		idx int
	}
	byName := map[string]*OblResult{}
	var order []string
	var mu sync.Mutex
	jobs := make(chan job, len(obls))
	counts := map[string]int{}
	for _, o := range obls {
		key := o.Fn + "::" + o.Name
		if _, ok := byName[key]; !ok {
			byName[key] = &OblResult{Name: o.Name, Fn: o.Fn, Class: o.Class, Status: "discharged", Solvers: map[string]int{}, Note: o.Note, Inputs: o.Inputs}
			order = append(order, key)
		}
		byName[key].Instances++
		if o.Goal != nil && o.Goal.isTrue() {
			byName[key].Solvers["trivial"]++
			continue
		}
		counts[key]++
		jobs <- job{o, counts[key]}
	}
	close(jobs)
	var wg sync.WaitGroup
	for w := 0; w < workers; w++ {
		wg.Add(1)
		go func() {
			defer wg.Done()
			for j := range jobs {
				key := j.o.Fn + "::" + j.o.Name
				mu.Lock()
				failedAlready := byName[key].Status == "failed"
				mu.Unlock()
				if failedAlready {
					continue
				}
				q := &Query{Name: fmt.Sprintf("%s__%s__%d", j.o.Fn, j.o.Name, j.idx), Asserts: j.o.Asserts, Goal: j.o.Goal, MaxAxiomOrder: j.o.AxiomOrder}
				res := reg.Solve(q, dir, timeout, second && j.o.Class != "cover")
				if j.o.Class == "cover" {
					// satisfiability check: "unsat" means the premises are contradictory
					switch res.Status {
					case "unsat":
						res.Status = "sat"
						res.Model = nil
						res.Raw = "premises are contradictory (vacuous statement)"
					default:
						res.Status = "unsat"
					}
				}
				mu.Lock()
				r := byName[key]
				r.Secs += res.Secs
				switch res.Status {
				case "unsat":
					r.Solvers[res.Solver]++
					if len(res.Decided) == 1 && second {
						r.Single = true
					}
				case "sat":
					if r.Status != "failed" {
						r.Status = "failed"
						r.Model = res.Model
						r.Raw = firstLines(res.Raw, 40)
						r.File = res.File
						r.Path = j.o.Path
					}
				default:
					if r.Status == "discharged" {
						r.Status = "undecided"
						r.Raw = res.Status + ": " + firstLines(res.Raw, 10)
						r.File = res.File
						r.Path = j.o.Path
					}
				}
				mu.Unlock()
			}
		}()
	}
	wg.Wait()
	var out []*OblResult
	for _, k := range order {
		out = append(out, byName[k])
	}
	return out
}

// coverCheck: at least one return path of the function must be satisfiable (vacuity guard / canary:
// this is exactly the query that "ensures false" would have to refute).
func coverCheck(reg *Registry, rep *FuncReport, dir string, timeout int) (string, string) {
	if len(rep.Covers) == 0 {
		return "no-return-path", ""
	}
	sawUnknown := false
	tried := 0
	for _, c := range rep.Covers {
		if tried >= 6 {
			break
		}
		tried++
		q := &Query{Name: fmt.Sprintf("%s__cover__%d", rep.Fn, tried), Asserts: c.Asserts, Goal: nil}
		res := reg.Solve(q, dir, timeout, false)
		switch res.Status {
		case "sat":
			return "reachable", c.Path
		case "unsat":
		default:
			sawUnknown = true
		}
	}
	if sawUnknown {
		return "inconclusive", ""
	}
	if tried < len(rep.Covers) {
		return "inconclusive", ""
	}
	return "vacuous", ""
}

func prepDir(work, id string) string {
	d := filepath.Join(work, id)
	os.RemoveAll(d)
	os.MkdirAll(d, 0o755)
	return d
}

func sortResults(rs []*OblResult) {
	sort.SliceStable(rs, func(i, j int) bool {
		if rs[i].Fn != rs[j].Fn {
			return rs[i].Fn < rs[j].Fn
		}
		return rs[i].Name < rs[j].Name
	})
}

var _ = time.Now

// capturedByRef reports whether free variable i of closure fn is bound to the address of a local
// of the enclosing function (an Alloc) rather than to a value.
func capturedByRef(fn *ssa.Function, i int) bool {
	parent := fn.Parent()
	if parent == nil {
		return true
	}
	for _, b := range parent.Blocks {
		for _, in := range b.Instrs {
			if mc, ok := in.(*ssa.MakeClosure); ok && mc.Fn == ssa.Value(fn) && i < len(mc.Bindings) {
				_, isAlloc := mc.Bindings[i].(*ssa.Alloc)
				return isAlloc
			}
		}
	}
	return true
}
