package main

// Contract files: comment-only Go files (//go:build verif) whose //@ lines carry contracts,
// plus extern-contract files under /verif/contracts. This file holds the line parser and the
// expression parser of the contract language.

import (
	"fmt"
	"os"
	"strconv"
	"strings"
)

type Clause struct {
	Name string // stable obligation name (#name)
	Text string
	E    *Expr
	Line int
	File string
}

type LoopSpec struct {
	Invariants []*Clause
	Latch      []*Clause // ghost assertions checked (then assumed) at the end of every iteration, before the loop variables advance
	Decreases  *Clause
}

type ParamDecl struct {
	Name string
	Type string // textual; Go type for externs, sort for spec functions
}

type FuncContract struct {
	Key         string // e.g. "MultCoin", "(*MerkleTree).GetPathByIndex", or full path for externs
	Pkg         string // package path the contract file belongs to ("" for externs)
	Extern      bool
	Params      []ParamDecl // externs only (names for params)
	Results     []string    // result names usable in ensures
	Mode        string      // "int" (default) or "bv"
	Requires    []*Clause
	Ensures     []*Clause
	Assigns     []*Clause // nil = not specified
	Locals      []string  // the function's declared locals in source order when the contract was written (positional fallback for renamed locals)
	BodyAssigns []*Clause // wider frame the body is checked against (trusted contracts whose callers see a narrower frame)
	HasAssign   bool
	Loops       map[int]*LoopSpec
	Pure        bool
	Trusted     bool // body not verified, contract assumed
	Inline      bool
	NoPanic     bool
	Props       []string // property ids this function serves
	Opts        map[string]string
	File        string
	Line        int
	Ghosts      []*GhostStmt
	Decreases   *Clause
	Holds       []HoldSpec // locks the caller must hold on entry
}

// HoldSpec: "holds <lock expr> R|W".
type HoldSpec struct {
	E    *Expr
	Mode string
	Text string
}

// GhostStmt: "at <label> assert/assume EXPR" hooks are not needed yet; placeholder for `use` hints.
type GhostStmt struct {
	Kind string
	E    *Expr
}

type SpecFun struct {
	Name   string
	Params []ParamDecl
	Ret    string
	Body   *Expr // nil for uninterpreted
	Rec    bool
	Line   int
	File   string
	Pred   bool
	Opaque bool   // do not unfold automatically
	Pkg    string // declaring package path ("" for extern files)
}

type Axiom struct {
	Name string
	E    *Expr
	Text string
}

type Lemma struct {
	Name      string
	Params    []ParamDecl
	Requires  []*Clause
	Ensures   []*Clause
	Induction string  // variable name, "" if none
	Uses      []*Expr // lemma instantiation hints: calls to other lemmas
	Props     []string
	Mode      string
	File      string
	Line      int
}

type ContractSet struct {
	Funcs   map[string]*FuncContract // key: pkgpath + "::" + Key, or extern full name
	Specs   map[string]*SpecFun
	Axioms  []*Axiom
	Lemmas  []*Lemma
	Consts  map[string]*Expr
	Order   []string
	Guarded map[string]string    // pkgpath.Type.field -> name of the lock field of the same object
	Ghost   map[string]string    // ghost heap components: name -> sort of the per-object value
	Closed  map[string]bool      // pkgpath.TypeName of interfaces treated as closed-world
	TypeInv map[string][]*Clause // pkgpath.TypeName -> own-field object invariants
}

func NewContractSet() *ContractSet {
	return &ContractSet{Funcs: map[string]*FuncContract{}, Specs: map[string]*SpecFun{}, Consts: map[string]*Expr{}, Guarded: map[string]string{}, Ghost: map[string]string{}, Closed: map[string]bool{}, TypeInv: map[string][]*Clause{}}
}

// ParseContractFile reads //@ lines from a file. pkgPath is "" for extern files.
func (cs *ContractSet) ParseContractFile(path, pkgPath string) error {
	data, err := os.ReadFile(path)
	if err != nil {
		return err
	}
	var lines []struct {
		text string
		no   int
	}
	for i, ln := range strings.Split(string(data), "\n") {
		t := strings.TrimSpace(ln)
		if !strings.HasPrefix(t, "//@") {
			continue
		}
		t = strings.TrimSpace(t[3:])
		if t == "" || strings.HasPrefix(t, "--") {
			continue
		}
		// continuation: a line starting with '|' continues the previous one
		if strings.HasPrefix(t, "|") && len(lines) > 0 {
			lines[len(lines)-1].text += " " + strings.TrimSpace(t[1:])
			continue
		}
		lines = append(lines, struct {
			text string
			no   int
		}{t, i + 1})
	}
	var cur *FuncContract
	var curLemma *Lemma
	for _, l := range lines {
		kw, rest := splitWord(l.text)
		fail := func(e error) error { return fmt.Errorf("%s:%d: %v", path, l.no, e) }
		switch kw {
		case "func", "extern":
			curLemma = nil
			fc := &FuncContract{Pkg: pkgPath, Extern: kw == "extern", Mode: "int", Loops: map[int]*LoopSpec{}, File: path, Line: l.no, Opts: map[string]string{}, NoPanic: true}
			// "func KEY [(params)] [returns (a, b)]"
			key := rest
			if i := strings.Index(rest, " returns "); i >= 0 {
				key = strings.TrimSpace(rest[:i])
				rs := strings.TrimSpace(rest[i+len(" returns "):])
				rs = strings.Trim(rs, "()")
				for _, r := range strings.Split(rs, ",") {
					r = strings.TrimSpace(r)
					if r != "" {
						fc.Results = append(fc.Results, strings.Fields(r)[0])
					}
				}
			}
			// params for externs: KEY(a, b)
			if i := paramListStart(key); i >= 0 {
				ps := key[i+1 : len(key)-1]
				key = strings.TrimSpace(key[:i])
				for _, p := range strings.Split(ps, ",") {
					p = strings.TrimSpace(p)
					if p == "" {
						continue
					}
					f := strings.Fields(p)
					pd := ParamDecl{Name: f[0]}
					if len(f) > 1 {
						pd.Type = strings.Join(f[1:], " ")
					}
					fc.Params = append(fc.Params, pd)
				}
			}
			fc.Key = key
			k := key
			if !fc.Extern {
				k = pkgPath + "::" + key
			}
			if _, dup := cs.Funcs[k]; dup {
				return fail(fmt.Errorf("duplicate contract for %s", k))
			}
			cs.Funcs[k] = fc
			cs.Order = append(cs.Order, k)
			cur = fc
		case "guarded":
			// guarded Type.field by lockfield
			f := strings.Fields(rest)
			if len(f) != 3 || f[1] != "by" {
				return fail(fmt.Errorf("guarded: want 'Type.field by lockfield'"))
			}
			cs.Guarded[pkgPath+"."+f[0]] = f[2]
		case "holds":
			if cur == nil {
				return fail(fmt.Errorf("holds outside func"))
			}
			i := strings.LastIndexAny(rest, " \t")
			if i < 0 {
				return fail(fmt.Errorf("holds: want '<lock expr> R|W'"))
			}
			mode := strings.TrimSpace(rest[i+1:])
			e, err := ParseExpr(strings.TrimSpace(rest[:i]))
			if err != nil {
				return fail(err)
			}
			cur.Holds = append(cur.Holds, HoldSpec{E: e, Mode: mode, Text: rest})
		case "ghostheap":
			name, srt := splitWord(rest)
			cs.Ghost[name] = srt
		case "closed":
			for _, n := range strings.Fields(strings.ReplaceAll(rest, ",", " ")) {
				cs.Closed[pkgPath+"."+n] = true
			}
		case "typeinv":
			name, r2 := splitWord(rest)
			name = strings.TrimSuffix(name, ":")
			text, cname := splitName(strings.TrimPrefix(strings.TrimSpace(r2), ":"))
			e, err := ParseExpr(text)
			if err != nil {
				return fail(err)
			}
			if cname == "" {
				cname = fmt.Sprintf("inv%d", len(cs.TypeInv[pkgPath+"."+name])+1)
			}
			cs.TypeInv[pkgPath+"."+name] = append(cs.TypeInv[pkgPath+"."+name], &Clause{Name: cname, Text: text, E: e, Line: l.no, File: path})
		case "decreases":
			e, err := ParseExpr(rest)
			if err != nil {
				return fail(err)
			}
			if cur == nil {
				return fail(fmt.Errorf("decreases outside func"))
			}
			cur.Decreases = &Clause{Name: "decreases", Text: rest, E: e, Line: l.no, File: path}
		case "mode":
			if curLemma != nil {
				curLemma.Mode = rest
			} else if cur != nil {
				cur.Mode = rest
			}
		case "props":
			ps := strings.Fields(strings.ReplaceAll(rest, ",", " "))
			if curLemma != nil {
				curLemma.Props = ps
			} else if cur != nil {
				cur.Props = ps
			}
		case "pure":
			cur.Pure = true
		case "trusted":
			cur.Trusted = true
		case "inline":
			cur.Inline = true
		case "nopanic":
			cur.NoPanic = true
		case "maypanic":
			cur.NoPanic = false
		case "opt":
			k, v := splitWord(rest)
			cur.Opts[k] = v
		case "requires", "ensures":
			text, name := splitName(rest)
			e, err := ParseExpr(text)
			if err != nil {
				return fail(err)
			}
			if curLemma != nil {
				if name == "" {
					name = fmt.Sprintf("%s%d", kw, len(curLemma.Requires)+len(curLemma.Ensures)+1)
				}
				c := &Clause{Name: name, Text: text, E: e, Line: l.no, File: path}
				if kw == "requires" {
					curLemma.Requires = append(curLemma.Requires, c)
				} else {
					curLemma.Ensures = append(curLemma.Ensures, c)
				}
				continue
			}
			if cur == nil {
				return fail(fmt.Errorf("%s outside func", kw))
			}
			if name == "" {
				name = fmt.Sprintf("%s%d", kw, len(cur.Requires)+len(cur.Ensures)+1)
			}
			c := &Clause{Name: name, Text: text, E: e, Line: l.no, File: path}
			if kw == "requires" {
				cur.Requires = append(cur.Requires, c)
			} else {
				cur.Ensures = append(cur.Ensures, c)
			}
		case "assigns":
			cur.HasAssign = true
			if strings.TrimSpace(rest) == "" || strings.TrimSpace(rest) == "nothing" {
				continue
			}
			for _, part := range splitTop(rest, ',') {
				e, err := ParseExpr(part)
				if err != nil {
					return fail(err)
				}
				cur.Assigns = append(cur.Assigns, &Clause{Text: part, E: e, Line: l.no, File: path})
			}
		case "locals":
			for _, n := range strings.Split(strings.Trim(strings.TrimSpace(rest), "()"), ",") {
				if n = strings.TrimSpace(n); n != "" {
					cur.Locals = append(cur.Locals, n)
				}
			}
		case "bodyassigns":
			for _, part := range splitTop(rest, ',') {
				e, err := ParseExpr(part)
				if err != nil {
					return fail(err)
				}
				cur.BodyAssigns = append(cur.BodyAssigns, &Clause{Text: part, E: e, Line: l.no, File: path})
			}
		case "loop":
			ns, r2 := splitWord(rest)
			n, err := strconv.Atoi(ns)
			if err != nil {
				return fail(fmt.Errorf("loop ordinal: %v", err))
			}
			k2, r3 := splitWord(r2)
			text, name := splitName(r3)
			e, err := ParseExpr(text)
			if err != nil {
				return fail(err)
			}
			ls := cur.Loops[n]
			if ls == nil {
				ls = &LoopSpec{}
				cur.Loops[n] = ls
			}
			switch k2 {
			case "invariant":
				if name == "" {
					name = fmt.Sprintf("inv%d", len(ls.Invariants)+1)
				}
				ls.Invariants = append(ls.Invariants, &Clause{Name: name, Text: text, E: e, Line: l.no, File: path})
			case "latch":
				if name == "" {
					name = fmt.Sprintf("latch%d", len(ls.Latch)+1)
				}
				ls.Latch = append(ls.Latch, &Clause{Name: name, Text: text, E: e, Line: l.no, File: path})
			case "decreases":
				ls.Decreases = &Clause{Name: "decreases", Text: text, E: e, Line: l.no, File: path}
			default:
				return fail(fmt.Errorf("unknown loop clause %q", k2))
			}
		case "spec", "pred", "ufun":
			curLemma = nil
			cur = nil
			sf, err := parseSpecDecl(kw, rest)
			if err != nil {
				return fail(err)
			}
			sf.File, sf.Line = path, l.no
			if _, dup := cs.Specs[sf.Name]; dup {
				return fail(fmt.Errorf("duplicate spec function %s", sf.Name))
			}
			sf.Pkg = pkgPath
			cs.Specs[sf.Name] = sf
		case "const":
			name, r2 := splitWord(rest)
			r2 = strings.TrimSpace(strings.TrimPrefix(strings.TrimSpace(r2), "="))
			e, err := ParseExpr(r2)
			if err != nil {
				return fail(err)
			}
			cs.Consts[name] = e
		case "axiom", "assume":
			curLemma = nil
			cur = nil
			name, r2 := splitWord(rest)
			name = strings.TrimSuffix(name, ":")
			e, err := ParseExpr(strings.TrimPrefix(strings.TrimSpace(r2), ":"))
			if err != nil {
				return fail(err)
			}
			cs.Axioms = append(cs.Axioms, &Axiom{Name: name, E: e, Text: r2})
		case "lemma", "theorem":
			cur = nil
			lm := &Lemma{File: path, Line: l.no, Mode: "int"}
			head := rest
			if i := strings.Index(head, " induction "); i >= 0 {
				lm.Induction = strings.TrimSpace(head[i+len(" induction "):])
				head = strings.TrimSpace(head[:i])
			}
			if i := strings.Index(head, "("); i >= 0 {
				lm.Name = strings.TrimSpace(head[:i])
				ps := head[i+1 : strings.LastIndex(head, ")")]
				for _, p := range strings.Split(ps, ",") {
					f := strings.Fields(strings.TrimSpace(p))
					if len(f) == 0 {
						continue
					}
					pd := ParamDecl{Name: f[0], Type: "Int"}
					if len(f) > 1 {
						pd.Type = strings.Join(f[1:], " ")
					}
					lm.Params = append(lm.Params, pd)
				}
			} else {
				lm.Name = strings.TrimSpace(head)
			}
			cs.Lemmas = append(cs.Lemmas, lm)
			curLemma = lm
		case "use":
			e, err := ParseExpr(rest)
			if err != nil {
				return fail(err)
			}
			if curLemma != nil {
				curLemma.Uses = append(curLemma.Uses, e)
			} else if cur != nil {
				cur.Ghosts = append(cur.Ghosts, &GhostStmt{Kind: "use", E: e})
			}
		default:
			return fail(fmt.Errorf("unknown contract keyword %q", kw))
		}
	}
	return nil
}

func paramListStart(key string) int {
	// "(recv).Name(a, b)" -> index of the last top-level '(' if the key ends with ')'
	if !strings.HasSuffix(key, ")") {
		return -1
	}
	depth := 0
	for i := len(key) - 1; i >= 0; i-- {
		switch key[i] {
		case ')':
			depth++
		case '(':
			depth--
			if depth == 0 {
				if i == 0 {
					return -1 // "(recv)" only
				}
				return i
			}
		}
	}
	return -1
}

func splitWord(s string) (string, string) {
	s = strings.TrimSpace(s)
	i := strings.IndexAny(s, " \t")
	if i < 0 {
		return s, ""
	}
	return s[:i], strings.TrimSpace(s[i+1:])
}

// splitName strips a trailing "#name".
func splitName(s string) (string, string) {
	s = strings.TrimSpace(s)
	i := strings.LastIndex(s, "#")
	if i < 0 {
		return s, ""
	}
	name := strings.TrimSpace(s[i+1:])
	for _, c := range name {
		if !(c == '.' || c == '_' || c == '-' || c >= '0' && c <= '9' || c >= 'a' && c <= 'z' || c >= 'A' && c <= 'Z') {
			return s, ""
		}
	}
	return strings.TrimSpace(s[:i]), name
}

func splitTop(s string, sep byte) []string {
	var out []string
	depth := 0
	start := 0
	for i := 0; i < len(s); i++ {
		switch s[i] {
		case '(', '[':
			depth++
		case ')', ']':
			depth--
		default:
			if s[i] == sep && depth == 0 {
				out = append(out, strings.TrimSpace(s[start:i]))
				start = i + 1
			}
		}
	}
	out = append(out, strings.TrimSpace(s[start:]))
	return out
}

func parseSpecDecl(kw, rest string) (*SpecFun, error) {
	// Name(a Int, b Int) Ret = body      | pred Name(a Int) = body | ufun Name(a Int) Ret
	i := strings.Index(rest, "(")
	if i < 0 {
		return nil, fmt.Errorf("spec: missing parameter list")
	}
	sf := &SpecFun{Name: strings.TrimSpace(rest[:i]), Pred: kw == "pred"}
	depth := 0
	j := i
	for ; j < len(rest); j++ {
		if rest[j] == '(' {
			depth++
		} else if rest[j] == ')' {
			depth--
			if depth == 0 {
				break
			}
		}
	}
	for _, p := range splitTop(rest[i+1:j], ',') {
		f := strings.Fields(p)
		if len(f) == 0 {
			continue
		}
		pd := ParamDecl{Name: f[0], Type: "Int"}
		if len(f) > 1 {
			pd.Type = strings.Join(f[1:], " ")
		}
		sf.Params = append(sf.Params, pd)
	}
	tail := strings.TrimSpace(rest[j+1:])
	body := ""
	if k := strings.Index(tail, "="); k >= 0 && kw != "ufun" {
		body = strings.TrimSpace(tail[k+1:])
		tail = strings.TrimSpace(tail[:k])
	}
	if tail == "opaque" || strings.HasSuffix(tail, " opaque") {
		sf.Opaque = true
		tail = strings.TrimSpace(strings.TrimSuffix(tail, "opaque"))
	}
	sf.Ret = tail
	if sf.Ret == "" {
		if kw == "pred" {
			sf.Ret = "Bool"
		} else {
			sf.Ret = "Int"
		}
	}
	if body != "" {
		e, err := ParseExpr(body)
		if err != nil {
			return nil, err
		}
		sf.Body = e
		sf.Rec = exprCalls(e, sf.Name)
	}
	return sf, nil
}

func exprCalls(e *Expr, name string) bool {
	if e == nil {
		return false
	}
	if e.Kind == eCall && e.Name == name {
		return true
	}
	for _, a := range e.Args {
		if exprCalls(a, name) {
			return true
		}
	}
	return false
}

// ---------------- expressions ----------------

const (
	eIdent = iota
	eInt
	eFloat
	eStr
	eBin
	eUn
	eCall
	eField
	eIndex
	eSliceE
	eCond
	eQuant
	eIs   // x is T
	eCast // x.(T)
)

type Expr struct {
	Kind  int
	Op    string
	Name  string
	Args  []*Expr
	Bound []ParamDecl
	Type  string // for eIs / eCast
	Pos   int
}

func (e *Expr) String() string {
	switch e.Kind {
	case eIdent, eInt, eFloat:
		return e.Name
	case eStr:
		return strconv.Quote(e.Name)
	case eBin:
		return "(" + e.Args[0].String() + " " + e.Op + " " + e.Args[1].String() + ")"
	case eUn:
		return e.Op + e.Args[0].String()
	case eCall:
		var as []string
		for _, a := range e.Args {
			as = append(as, a.String())
		}
		return e.Name + "(" + strings.Join(as, ", ") + ")"
	case eField:
		return e.Args[0].String() + "." + e.Name
	case eIndex:
		return e.Args[0].String() + "[" + e.Args[1].String() + "]"
	case eCond:
		return "(" + e.Args[0].String() + " ? " + e.Args[1].String() + " : " + e.Args[2].String() + ")"
	case eQuant:
		var bs []string
		for _, b := range e.Bound {
			bs = append(bs, b.Name+" "+b.Type)
		}
		return "(" + e.Op + " " + strings.Join(bs, ", ") + " :: " + e.Args[0].String() + ")"
	case eIs:
		return "(" + e.Args[0].String() + " is " + e.Type + ")"
	case eCast:
		return e.Args[0].String() + ".(" + e.Type + ")"
	}
	return "?"
}

type tok struct {
	kind string // "id", "num", "str", "op", "eof"
	text string
	pos  int
}

func lex(src string) ([]tok, error) {
	var toks []tok
	i := 0
	n := len(src)
	ops := []string{"<==>", "==>", "::", "==", "!=", "<=", ">=", "&&", "||", "<<", ">>", "+", "-", "*", "/", "%", "<", ">", "!", "(", ")", "[", "]", ",", ".", "?", ":", "&", "|", "^"}
	for i < n {
		c := src[i]
		if c == ' ' || c == '\t' {
			i++
			continue
		}
		if c == '_' || c == '$' || c >= 'a' && c <= 'z' || c >= 'A' && c <= 'Z' {
			j := i
			for j < n && (src[j] == '_' || src[j] == '$' || src[j] == '\'' || src[j] >= 'a' && src[j] <= 'z' || src[j] >= 'A' && src[j] <= 'Z' || src[j] >= '0' && src[j] <= '9') {
				j++
			}
			toks = append(toks, tok{"id", src[i:j], i})
			i = j
			continue
		}
		if c >= '0' && c <= '9' {
			j := i
			if c == '0' && j+1 < n && (src[j+1] == 'x' || src[j+1] == 'X') {
				j += 2
				for j < n && (src[j] >= '0' && src[j] <= '9' || src[j] >= 'a' && src[j] <= 'f' || src[j] >= 'A' && src[j] <= 'F') {
					j++
				}
			} else {
				for j < n && (src[j] >= '0' && src[j] <= '9' || src[j] == '_') {
					j++
				}
				if j < n && src[j] == '.' && j+1 < n && src[j+1] >= '0' && src[j+1] <= '9' {
					j++
					for j < n && src[j] >= '0' && src[j] <= '9' {
						j++
					}
				}
				if j < n && (src[j] == 'e' || src[j] == 'E') {
					k := j + 1
					if k < n && (src[k] == '+' || src[k] == '-') {
						k++
					}
					if k < n && src[k] >= '0' && src[k] <= '9' {
						for k < n && src[k] >= '0' && src[k] <= '9' {
							k++
						}
						j = k
					}
				}
			}
			toks = append(toks, tok{"num", src[i:j], i})
			i = j
			continue
		}
		if c == '"' {
			j := i + 1
			for j < n && src[j] != '"' {
				if src[j] == '\\' {
					j++
				}
				j++
			}
			if j >= n {
				return nil, fmt.Errorf("unterminated string at %d", i)
			}
			s, err := strconv.Unquote(src[i : j+1])
			if err != nil {
				return nil, err
			}
			toks = append(toks, tok{"str", s, i})
			i = j + 1
			continue
		}
		matched := false
		for _, op := range ops {
			if strings.HasPrefix(src[i:], op) {
				toks = append(toks, tok{"op", op, i})
				i += len(op)
				matched = true
				break
			}
		}
		if !matched {
			return nil, fmt.Errorf("unexpected character %q at %d in %q", c, i, src)
		}
	}
	toks = append(toks, tok{"eof", "", n})
	return toks, nil
}

type parser struct {
	toks []tok
	p    int
	src  string
}

func ParseExpr(src string) (*Expr, error) {
	toks, err := lex(src)
	if err != nil {
		return nil, err
	}
	ps := &parser{toks: toks, src: src}
	e, err := ps.parseTop()
	if err != nil {
		return nil, fmt.Errorf("%v in %q", err, src)
	}
	if ps.peek().kind != "eof" {
		return nil, fmt.Errorf("unexpected %q at %d in %q", ps.peek().text, ps.peek().pos, src)
	}
	return e, nil
}

func (ps *parser) peek() tok { return ps.toks[ps.p] }
func (ps *parser) next() tok { t := ps.toks[ps.p]; ps.p++; return t }
func (ps *parser) isOp(s string) bool {
	t := ps.peek()
	return t.kind == "op" && t.text == s
}
func (ps *parser) isId(s string) bool {
	t := ps.peek()
	return t.kind == "id" && t.text == s
}
func (ps *parser) expectOp(s string) error {
	if !ps.isOp(s) {
		return fmt.Errorf("expected %q, got %q at %d", s, ps.peek().text, ps.peek().pos)
	}
	ps.p++
	return nil
}

func (ps *parser) parseTop() (*Expr, error) { return ps.parseIff() }

func (ps *parser) parseIff() (*Expr, error) {
	l, err := ps.parseImpl()
	if err != nil {
		return nil, err
	}
	for ps.isOp("<==>") {
		ps.next()
		r, err := ps.parseImpl()
		if err != nil {
			return nil, err
		}
		l = &Expr{Kind: eBin, Op: "<==>", Args: []*Expr{l, r}}
	}
	return l, nil
}

func (ps *parser) parseImpl() (*Expr, error) {
	l, err := ps.parseCond()
	if err != nil {
		return nil, err
	}
	if ps.isOp("==>") {
		ps.next()
		r, err := ps.parseImpl()
		if err != nil {
			return nil, err
		}
		return &Expr{Kind: eBin, Op: "==>", Args: []*Expr{l, r}}, nil
	}
	return l, nil
}

func (ps *parser) parseCond() (*Expr, error) {
	c, err := ps.parseOr()
	if err != nil {
		return nil, err
	}
	if ps.isOp("?") {
		ps.next()
		a, err := ps.parseCond()
		if err != nil {
			return nil, err
		}
		if err := ps.expectOp(":"); err != nil {
			return nil, err
		}
		b, err := ps.parseCond()
		if err != nil {
			return nil, err
		}
		return &Expr{Kind: eCond, Args: []*Expr{c, a, b}}, nil
	}
	return c, nil
}

func (ps *parser) parseOr() (*Expr, error) {
	l, err := ps.parseAnd()
	if err != nil {
		return nil, err
	}
	for ps.isOp("||") {
		ps.next()
		r, err := ps.parseAnd()
		if err != nil {
			return nil, err
		}
		l = &Expr{Kind: eBin, Op: "||", Args: []*Expr{l, r}}
	}
	return l, nil
}

func (ps *parser) parseAnd() (*Expr, error) {
	l, err := ps.parseCmp()
	if err != nil {
		return nil, err
	}
	for ps.isOp("&&") {
		ps.next()
		r, err := ps.parseCmp()
		if err != nil {
			return nil, err
		}
		l = &Expr{Kind: eBin, Op: "&&", Args: []*Expr{l, r}}
	}
	return l, nil
}

func (ps *parser) parseCmp() (*Expr, error) {
	l, err := ps.parseAdd()
	if err != nil {
		return nil, err
	}
	for {
		t := ps.peek()
		if t.kind == "op" && (t.text == "==" || t.text == "!=" || t.text == "<" || t.text == "<=" || t.text == ">" || t.text == ">=") {
			ps.next()
			r, err := ps.parseAdd()
			if err != nil {
				return nil, err
			}
			// chained comparison a <= b < c  ==> (a <= b) && (b < c)
			if l.Kind == eBin && isCmpOp(l.Op) && l.Op != "==" && l.Op != "!=" && t.text != "==" && t.text != "!=" {
				l = &Expr{Kind: eBin, Op: "&&", Args: []*Expr{l, {Kind: eBin, Op: t.text, Args: []*Expr{l.Args[1], r}}}}
			} else if l.Kind == eBin && l.Op == "&&" && l.Args[1].Kind == eBin && isCmpOp(l.Args[1].Op) && t.text != "==" && t.text != "!=" {
				l = &Expr{Kind: eBin, Op: "&&", Args: []*Expr{l, {Kind: eBin, Op: t.text, Args: []*Expr{l.Args[1].Args[1], r}}}}
			} else {
				l = &Expr{Kind: eBin, Op: t.text, Args: []*Expr{l, r}}
			}
			continue
		}
		if t.kind == "id" && t.text == "is" {
			ps.next()
			ty, err := ps.parseTypeText()
			if err != nil {
				return nil, err
			}
			l = &Expr{Kind: eIs, Args: []*Expr{l}, Type: ty}
			continue
		}
		if t.kind == "id" && t.text == "in" {
			ps.next()
			r, err := ps.parseAdd()
			if err != nil {
				return nil, err
			}
			l = &Expr{Kind: eBin, Op: "in", Args: []*Expr{l, r}}
			continue
		}
		return l, nil
	}
}

func isCmpOp(s string) bool {
	return s == "<" || s == "<=" || s == ">" || s == ">=" || s == "==" || s == "!="
}

func (ps *parser) parseTypeText() (string, error) {
	var sb strings.Builder
	if ps.isOp("(") {
		// an SMT sort written as an s-expression, e.g. (Array Int Int)
		depth := 0
		for {
			t := ps.next()
			if t.kind == "eof" {
				return "", fmt.Errorf("unterminated sort")
			}
			if t.text == "(" {
				depth++
				sb.WriteString("(")
				continue
			}
			if t.text == ")" {
				depth--
				sb.WriteString(")")
				if depth == 0 {
					return sb.String(), nil
				}
				continue
			}
			if s := sb.String(); !strings.HasSuffix(s, "(") {
				sb.WriteString(" ")
			}
			sb.WriteString(t.text)
		}
	}
	for ps.isOp("*") || ps.isOp("[") {
		if ps.isOp("[") {
			ps.next()
			if err := ps.expectOp("]"); err != nil {
				return "", err
			}
			sb.WriteString("[]")
		} else {
			ps.next()
			sb.WriteString("*")
		}
	}
	t := ps.next()
	if t.kind != "id" {
		return "", fmt.Errorf("type name expected at %d", t.pos)
	}
	sb.WriteString(t.text)
	for ps.isOp(".") {
		ps.next()
		t2 := ps.next()
		sb.WriteString("." + t2.text)
	}
	return sb.String(), nil
}

func (ps *parser) parseAdd() (*Expr, error) {
	l, err := ps.parseMul()
	if err != nil {
		return nil, err
	}
	for ps.isOp("+") || ps.isOp("-") || ps.isOp("|") || ps.isOp("^") {
		op := ps.next().text
		r, err := ps.parseMul()
		if err != nil {
			return nil, err
		}
		l = &Expr{Kind: eBin, Op: op, Args: []*Expr{l, r}}
	}
	return l, nil
}

func (ps *parser) parseMul() (*Expr, error) {
	l, err := ps.parseUnary()
	if err != nil {
		return nil, err
	}
	for ps.isOp("*") || ps.isOp("/") || ps.isOp("%") || ps.isOp("<<") || ps.isOp(">>") || ps.isOp("&") {
		op := ps.next().text
		r, err := ps.parseUnary()
		if err != nil {
			return nil, err
		}
		l = &Expr{Kind: eBin, Op: op, Args: []*Expr{l, r}}
	}
	return l, nil
}

func (ps *parser) parseUnary() (*Expr, error) {
	if ps.isOp("!") || ps.isOp("-") || ps.isOp("*") || ps.isOp("&") {
		op := ps.next().text
		x, err := ps.parseUnary()
		if err != nil {
			return nil, err
		}
		return &Expr{Kind: eUn, Op: op, Args: []*Expr{x}}, nil
	}
	return ps.parsePostfix()
}

func (ps *parser) parsePostfix() (*Expr, error) {
	x, err := ps.parsePrimary()
	if err != nil {
		return nil, err
	}
	for {
		switch {
		case ps.isOp("."):
			ps.next()
			if ps.isOp("(") {
				ps.next()
				ty, err := ps.parseTypeText()
				if err != nil {
					return nil, err
				}
				if err := ps.expectOp(")"); err != nil {
					return nil, err
				}
				x = &Expr{Kind: eCast, Args: []*Expr{x}, Type: ty}
				continue
			}
			t := ps.next()
			if t.kind != "id" {
				return nil, fmt.Errorf("field name expected at %d", t.pos)
			}
			if ps.isOp("(") && x.Kind == eIdent {
				// qualified call pkg.Func(args) or method-style spec call
				args, err := ps.parseArgs()
				if err != nil {
					return nil, err
				}
				x = &Expr{Kind: eCall, Name: x.Name + "." + t.text, Args: args}
				continue
			}
			x = &Expr{Kind: eField, Name: t.text, Args: []*Expr{x}}
		case ps.isOp("["):
			ps.next()
			// index or slice
			var lo, hi *Expr
			if !ps.isOp(":") {
				lo, err = ps.parseTop()
				if err != nil {
					return nil, err
				}
			}
			if ps.isOp(":") {
				ps.next()
				if !ps.isOp("]") {
					hi, err = ps.parseTop()
					if err != nil {
						return nil, err
					}
				}
				if err := ps.expectOp("]"); err != nil {
					return nil, err
				}
				x = &Expr{Kind: eSliceE, Args: []*Expr{x, lo, hi}}
				continue
			}
			if err := ps.expectOp("]"); err != nil {
				return nil, err
			}
			x = &Expr{Kind: eIndex, Args: []*Expr{x, lo}}
		default:
			return x, nil
		}
	}
}

func (ps *parser) parseArgs() ([]*Expr, error) {
	if err := ps.expectOp("("); err != nil {
		return nil, err
	}
	var args []*Expr
	for !ps.isOp(")") {
		a, err := ps.parseTop()
		if err != nil {
			return nil, err
		}
		args = append(args, a)
		if ps.isOp(",") {
			ps.next()
			continue
		}
		break
	}
	if err := ps.expectOp(")"); err != nil {
		return nil, err
	}
	return args, nil
}

func (ps *parser) parsePrimary() (*Expr, error) {
	t := ps.next()
	switch t.kind {
	case "num":
		txt := strings.ReplaceAll(t.text, "_", "")
		if strings.ContainsAny(txt, ".eE") && !strings.HasPrefix(txt, "0x") {
			return &Expr{Kind: eFloat, Name: txt}, nil
		}
		return &Expr{Kind: eInt, Name: txt}, nil
	case "str":
		return &Expr{Kind: eStr, Name: t.text}, nil
	case "id":
		if t.text == "forall" || t.text == "exists" {
			var bound []ParamDecl
			for {
				n := ps.next()
				if n.kind != "id" {
					return nil, fmt.Errorf("bound variable expected at %d", n.pos)
				}
				pd := ParamDecl{Name: n.text, Type: "Int"}
				if ps.peek().kind == "id" || ps.isOp("*") || ps.isOp("[") || ps.isOp("(") {
					ty, err := ps.parseTypeText()
					if err != nil {
						return nil, err
					}
					pd.Type = ty
				}
				bound = append(bound, pd)
				if ps.isOp(",") {
					ps.next()
					continue
				}
				break
			}
			if err := ps.expectOp("::"); err != nil {
				return nil, err
			}
			body, err := ps.parseTop()
			if err != nil {
				return nil, err
			}
			return &Expr{Kind: eQuant, Op: t.text, Bound: bound, Args: []*Expr{body}}, nil
		}
		if ps.isOp("(") {
			args, err := ps.parseArgs()
			if err != nil {
				return nil, err
			}
			return &Expr{Kind: eCall, Name: t.text, Args: args}, nil
		}
		return &Expr{Kind: eIdent, Name: t.text}, nil
	case "op":
		if t.text == "(" {
			e, err := ps.parseTop()
			if err != nil {
				return nil, err
			}
			if err := ps.expectOp(")"); err != nil {
				return nil, err
			}
			return e, nil
		}
	}
	return nil, fmt.Errorf("unexpected %q at %d", t.text, t.pos)
}
