package main

// Counterexample replay: run the real function on the solver's model (in-package test injected
// with -overlay, nothing is written to /repo) and re-evaluate the failed clause on the observed
// outputs.

import (
	"encoding/json"
	"fmt"
	"go/types"
	"math/big"
	"os"
	"os/exec"
	"path/filepath"
	"strings"

	"golang.org/x/tools/go/ssa"
)

type ReplayFile struct {
	Property   string            `json:"property"`
	Obligation string            `json:"obligation"`
	Class      string            `json:"class"`
	Status     string            `json:"status"`
	Clause     string            `json:"clause"`
	Function   string            `json:"function"`
	Package    string            `json:"package"`
	Path       string            `json:"path_blocks"`
	Model      map[string]string `json:"model,omitempty"`
	Inputs     map[string]string `json:"inputs,omitempty"`
	SolverOut  string            `json:"solver_output"`
	SMTFile    string            `json:"smt_file"`
	TestSrc    string            `json:"test_source,omitempty"`
	TestOut    string            `json:"test_output,omitempty"`
	Confirmed  bool              `json:"confirmed_on_real_code"`
	Verdict    string            `json:"verdict"`
}

func writeReplay(eng *Engine, id, dir string, r *OblResult, reports []*FuncReport) (string, bool) {
	rf := &ReplayFile{Property: id, Obligation: r.Fn + "::" + r.Name, Class: r.Class, Status: r.Status, Clause: r.Note,
		Function: r.Fn, Path: r.Path, Model: r.Model, SolverOut: r.Raw, SMTFile: r.File}
	var rep *FuncReport
	for _, fr := range reports {
		if fr.Fn == r.Fn {
			rep = fr
		}
	}
	if rep != nil {
		rf.Package = rep.Pkg
	}
	// keep the SMT file next to the replay file
	if r.File != "" {
		if data, err := os.ReadFile(r.File); err == nil {
			dst := filepath.Join(dir, sanitize(r.Fn+"__"+r.Name)+".smt2")
			os.WriteFile(dst, data, 0o644)
			rf.SMTFile = dst
		}
	}
	if r.Status == "failed" && rep != nil && rep.fnObj != nil && r.Model != nil {
		tryConcreteReplay(eng, rf, r, rep, dir)
	}
	if !rf.Confirmed && rep != nil && rep.Pkg != "" {
		tryWitness(rf, r, rep, dir)
	}
	if rf.Verdict == "" {
		switch r.Status {
		case "failed":
			rf.Verdict = "obligation refuted by the solver (model attached); no concrete replay harness for this signature"
		default:
			rf.Verdict = "obligation not discharged (" + r.Status + "); no counterexample available"
		}
	}
	p := filepath.Join(dir, fmt.Sprintf("%s_%08x.json", sanitize(r.Fn+"__"+r.Name), hashStr(r.Fn+"::"+r.Name)&0xffffffff))
	data, _ := json.MarshalIndent(rf, "", " ")
	os.WriteFile(p, data, 0o644)
	return p, rf.Confirmed
}

func cmdReplay(args []string) int {
	if len(args) < 1 {
		usage()
	}
	data, err := os.ReadFile(args[0])
	if err != nil {
		fmt.Fprintln(os.Stderr, err)
		return 2
	}
	var rf ReplayFile
	if err := json.Unmarshal(data, &rf); err != nil {
		fmt.Println(string(data))
		return 1
	}
	fmt.Printf("obligation: %s\nclass: %s\nclause: %s\nverdict: %s\n", rf.Obligation, rf.Class, rf.Clause, rf.Verdict)
	if rf.TestSrc == "" {
		fmt.Println("no concrete test recorded; solver output:\n" + rf.SolverOut)
		return 1
	}
	work := filepath.Join(outDir(), "work", "replay")
	os.MkdirAll(work, 0o755)
	out, _ := runReplayTest(work, rf.Package, rf.TestSrc)
	fmt.Println(out)
	if rf.Confirmed {
		return 1
	}
	return 0
}

// ---------- model values ----------

func modelBig(v string) (*big.Int, bool) {
	v = strings.TrimSpace(v)
	switch {
	case strings.HasPrefix(v, "#x"):
		n, ok := new(big.Int).SetString(v[2:], 16)
		return n, ok
	case strings.HasPrefix(v, "#b"):
		n, ok := new(big.Int).SetString(v[2:], 2)
		return n, ok
	case strings.HasPrefix(v, "(_ bv"):
		f := strings.Fields(strings.Trim(v, "()"))
		if len(f) >= 2 {
			n, ok := new(big.Int).SetString(strings.TrimPrefix(f[1], "bv"), 10)
			return n, ok
		}
	case strings.HasPrefix(v, "(- "):
		n, ok := new(big.Int).SetString(strings.TrimSpace(strings.TrimSuffix(v[3:], ")")), 10)
		if ok {
			n.Neg(n)
		}
		return n, ok
	}
	n, ok := new(big.Int).SetString(v, 10)
	return n, ok
}

func modelFloatBits(v string) (uint64, bool) {
	v = strings.TrimSpace(v)
	switch {
	case strings.HasPrefix(v, "(fp "):
		f := strings.Fields(strings.Trim(v, "()"))
		if len(f) != 4 {
			return 0, false
		}
		var bits uint64
		for _, part := range f[1:] {
			n, ok := modelBig(part)
			if !ok {
				return 0, false
			}
			w := 0
			if strings.HasPrefix(part, "#b") {
				w = len(part) - 2
			} else if strings.HasPrefix(part, "#x") {
				w = 4 * (len(part) - 2)
			}
			bits = bits<<uint(w) | n.Uint64()
		}
		return bits, true
	case strings.HasPrefix(v, "(_ +zero"):
		return 0, true
	case strings.HasPrefix(v, "(_ -zero"):
		return 1 << 63, true
	case strings.HasPrefix(v, "(_ +oo"):
		return 0x7ff0000000000000, true
	case strings.HasPrefix(v, "(_ -oo"):
		return 0xfff0000000000000, true
	case strings.HasPrefix(v, "(_ NaN"):
		return 0x7ff8000000000001, true
	}
	return 0, false
}

// goLiteral renders a model value as a Go expression of type t (scalars only).
func goLiteral(t types.Type, v string, qual func(types.Type) string) (string, *Term, bool) {
	if isBool(t) {
		if strings.TrimSpace(v) == "true" {
			return "true", TTrue, true
		}
		return "false", TFalse, true
	}
	if isFloat(t) {
		bits, ok := modelFloatBits(v)
		if !ok {
			return "", nil, false
		}
		return fmt.Sprintf("%s(math.Float64frombits(0x%x))", qual(t), bits), nil, true
	}
	if ii, ok := intInfoOf(t); ok {
		n, ok := modelBig(v)
		if !ok {
			return "", nil, false
		}
		if ii.signed && strings.HasPrefix(strings.TrimSpace(v), "#") || strings.HasPrefix(strings.TrimSpace(v), "(_ bv") {
			// two's complement
			if ii.signed && n.Cmp(ii.max()) > 0 {
				n.Sub(n, new(big.Int).Lsh(big.NewInt(1), uint(ii.w)))
			}
		}
		return fmt.Sprintf("%s(%s)", qual(t), n.String()), nil, true
	}
	return "", nil, false
}

func scalarType(t types.Type) bool {
	if isBool(t) || isFloat(t) {
		return true
	}
	_, ok := intInfoOf(t)
	return ok
}

func isErrorType(t types.Type) bool {
	return types.Identical(t, types.Universe.Lookup("error").Type())
}

func tryConcreteReplay(eng *Engine, rf *ReplayFile, r *OblResult, rep *FuncReport, dir string) {
	fn := rep.fnObj
	if fn.Pkg == nil || fn.Parent() != nil {
		return
	}
	sig := fn.Signature
	qual := func(t types.Type) string {
		return types.TypeString(t, func(p *types.Package) string {
			if p == fn.Pkg.Pkg {
				return ""
			}
			return p.Name()
		})
	}
	var argSrc []string
	rf.Inputs = map[string]string{}
	for _, p := range fn.Params {
		if !scalarType(p.Type()) {
			return
		}
		mv, ok := r.Model[rep.ParamSyms[p.Name()]]
		if !ok {
			mv = "0"
			if isFloat(p.Type()) {
				mv = "(_ +zero 11 53)"
			}
			if isBool(p.Type()) {
				mv = "false"
			}
		}
		lit, _, ok := goLiteral(p.Type(), mv, qual)
		if !ok {
			return
		}
		argSrc = append(argSrc, lit)
		rf.Inputs[p.Name()] = lit
	}
	rs := sig.Results()
	for i := 0; i < rs.Len(); i++ {
		if !scalarType(rs.At(i).Type()) && !isErrorType(rs.At(i).Type()) {
			return
		}
	}
	call := fn.Name() + "(" + strings.Join(argSrc, ", ") + ")"
	if sig.Recv() != nil {
		call = "(" + argSrc[0] + ")." + fn.Name() + "(" + strings.Join(argSrc[1:], ", ") + ")"
		if _, isPtr := sig.Recv().Type().(*types.Pointer); isPtr {
			return
		}
	}
	var sb strings.Builder
	sb.WriteString("package " + fn.Pkg.Pkg.Name() + "\n\nimport (\n\t\"fmt\"\n\t\"math\"\n\t\"testing\"\n)\n\nvar _ = math.Float64bits\n\n")
	sb.WriteString("// generated by gocv: replay of a solver counterexample for obligation " + rf.Obligation + "\n")
	sb.WriteString("func TestGocvReplay(t *testing.T) {\n\tdefer func() {\n\t\tif r := recover(); r != nil {\n\t\t\tfmt.Printf(\"GOCV-PANIC %v\\n\", r)\n\t\t}\n\t}()\n")
	var lhs []string
	for i := 0; i < rs.Len(); i++ {
		lhs = append(lhs, fmt.Sprintf("r%d", i))
	}
	if len(lhs) > 0 {
		sb.WriteString("\t" + strings.Join(lhs, ", ") + " := " + call + "\n")
	} else {
		sb.WriteString("\t" + call + "\n")
	}
	for i := 0; i < rs.Len(); i++ {
		t := rs.At(i).Type()
		switch {
		case isErrorType(t):
			sb.WriteString(fmt.Sprintf("\tfmt.Printf(\"GOCV-RESULT %d err %%v\\n\", r%d != nil)\n", i, i))
		case isBool(t):
			sb.WriteString(fmt.Sprintf("\tfmt.Printf(\"GOCV-RESULT %d bool %%v\\n\", r%d)\n", i, i))
		case isFloat(t):
			sb.WriteString(fmt.Sprintf("\tfmt.Printf(\"GOCV-RESULT %d float %%d\\n\", math.Float64bits(float64(r%d)))\n", i, i))
		default:
			ii, _ := intInfoOf(t)
			if ii.signed {
				sb.WriteString(fmt.Sprintf("\tfmt.Printf(\"GOCV-RESULT %d int %%d\\n\", int64(r%d))\n", i, i))
			} else {
				sb.WriteString(fmt.Sprintf("\tfmt.Printf(\"GOCV-RESULT %d int %%d\\n\", uint64(r%d))\n", i, i))
			}
		}
	}
	sb.WriteString("\tfmt.Println(\"GOCV-DONE\")\n}\n")
	rf.TestSrc = sb.String()
	out, _ := runReplayTest(dir, rep.Pkg, rf.TestSrc)
	rf.TestOut = out
	if strings.Contains(out, "GOCV-PANIC") {
		if r.Class == "safety" || r.Class == "requires" || rep.fc == nil || rep.fc.NoPanic {
			rf.Confirmed = true
			rf.Verdict = "the real function panics on the solver's input: " + firstLines(out[strings.Index(out, "GOCV-PANIC"):], 1)
		}
		return
	}
	if !strings.Contains(out, "GOCV-DONE") {
		rf.Verdict = "replay test did not run to completion"
		return
	}
	if r.Class != "ensures" || rep.fc == nil {
		rf.Verdict = "the real function returned normally on the solver's input; obligation class " + r.Class + " is not observable from outputs"
		return
	}
	// re-evaluate the failed ensures clause on concrete inputs and observed outputs
	var clause *Clause
	for _, en := range rep.fc.Ensures {
		if "post#"+en.Name == r.Name {
			clause = en
		}
	}
	if clause == nil {
		return
	}
	x := eng.newExec(fn, rep.fc)
	s := &State{heap: map[string]*Term{}, locks: map[string]string{}, ghost: map[string]*Term{}, hbound: map[string]*Term{}}
	s.alloc = Var("alloc!0", SInt)
	env := &SpecEnv{x: x, s: s, names: map[string]Val{}, fnPkg: pkgOf(fn)}
	var eqs []*Term
	for _, p := range fn.Params {
		v := Var("p$"+p.Name(), x.sortOf(p.Type()))
		env.names[p.Name()] = tv(v, p.Type())
		mv, ok := r.Model[rep.ParamSyms[p.Name()]]
		if ok {
			eqs = append(eqs, Eq(v, Lit(mv, v.Sort)))
		} else {
			eqs = append(eqs, Eq(v, eng.zeroOf(p.Type(), x.mode)))
		}
	}
	x.globalFacts(s, fn.Pkg)
	rn := x.resultNames(fn, rep.fc)
	for _, ln := range strings.Split(out, "\n") {
		f := strings.Fields(ln)
		if len(f) != 4 || f[0] != "GOCV-RESULT" {
			continue
		}
		var i int
		fmt.Sscanf(f[1], "%d", &i)
		t := rs.At(i).Type()
		v := Var("ret$"+rn[i], x.sortOf(t))
		env.names[rn[i]] = tv(v, t)
		switch f[2] {
		case "err":
			if f[3] == "true" {
				eqs = append(eqs, Not(Eq(ifTag(v), IntLit(0))))
			} else {
				eqs = append(eqs, Eq(v, nilIface))
			}
		case "bool":
			if f[3] == "true" {
				eqs = append(eqs, v)
			} else {
				eqs = append(eqs, Not(v))
			}
		case "float":
			var bits uint64
			fmt.Sscanf(f[3], "%d", &bits)
			eqs = append(eqs, Eq(v, Lit(fmt.Sprintf("(fp #b%b #b%011b #b%052b)", bits>>63, (bits>>52)&0x7ff, bits&((1<<52)-1)), SFP64)))
		case "int":
			n, _ := new(big.Int).SetString(f[3], 10)
			if w := bvWidth(v.Sort); w > 0 {
				eqs = append(eqs, Eq(v, BVLit(n, w)))
			} else {
				eqs = append(eqs, Eq(v, BigLit(n)))
			}
		}
	}
	env.old = &SpecEnv{x: x, s: s, names: env.names, fnPkg: pkgOf(fn)}
	goal, err := env.boolExpr(clause.E)
	if err != nil {
		rf.Verdict = "could not re-evaluate the clause on concrete outputs: " + err.Error()
		return
	}
	q := &Query{Name: "replay_eval_" + r.Fn + "_" + r.Name, Asserts: append(s.assertList(), eqs...), Goal: goal}
	res := eng.reg.Solve(q, dir, 20, false)
	switch res.Status {
	case "sat":
		rf.Confirmed = true
		rf.Verdict = "replayed on the real code: inputs " + fmt.Sprint(rf.Inputs) + " give outputs that violate the clause `" + clause.Text + "`"
	case "unsat":
		rf.Verdict = "the real function satisfies the clause on the solver's input (the model exploits an abstraction); treated as unconfirmed"
	default:
		rf.Verdict = "clause evaluation on concrete outputs was inconclusive: " + res.Status
	}
}

// tryWitness: hand-written witness builders under /verif/witness/<pkg>/ turn the input class named by
// an obligation into concrete inputs for the real code. Header lines of the form
//
//	// obligation: <prefix of Fn::name> => <label>
//
// bind obligations to labelled cases; the case is confirmed when the test prints
// "GOCV-PANIC <label>" or "GOCV-FAIL <label>".
func tryWitness(rf *ReplayFile, r *OblResult, rep *FuncReport, dir string) {
	pkgName := rep.Pkg[strings.LastIndex(rep.Pkg, "/")+1:]
	files, _ := filepath.Glob(filepath.Join(verifDir(), "witness", pkgName, "*_test.go"))
	full := r.Fn + "::" + r.Name
	for _, f := range files {
		data, err := os.ReadFile(f)
		if err != nil {
			continue
		}
		for _, ln := range strings.Split(string(data), "\n") {
			ln = strings.TrimSpace(ln)
			if !strings.HasPrefix(ln, "// obligation:") {
				continue
			}
			parts := strings.SplitN(strings.TrimSpace(strings.TrimPrefix(ln, "// obligation:")), "=>", 2)
			if len(parts) != 2 || !strings.HasPrefix(full, strings.TrimSpace(parts[0])) {
				continue
			}
			label := strings.TrimSpace(parts[1])
			out, _ := runTestOverlay(dir, rep.Pkg, string(data), "zz_gocv_witness_test.go", "^TestGocvWitness")
			rf.TestSrc = string(data)
			rf.TestOut = out
			for _, ol := range strings.Split(out, "\n") {
				if (strings.Contains(ol, "GOCV-PANIC") || strings.Contains(ol, "GOCV-FAIL") || strings.Contains(ol, "DATA RACE")) && strings.Contains(ol, label) {
					rf.Confirmed = true
					rf.Verdict = "witness " + filepath.Base(f) + " reproduces it on the real code: " + strings.TrimSpace(ol)
					return
				}
			}
			rf.Verdict = "witness " + filepath.Base(f) + " (" + label + ") does not fail on the real code"
			break // try the next witness file bound to this obligation
		}
	}
}

// runReplayTest runs an in-package test against the real code via -overlay.
func runReplayTest(work, pkgPath, src string) (string, error) {
	return runTestOverlay(work, pkgPath, src, "zz_gocv_replay_test.go", "^TestGocvReplay$")
}

func runTestOverlay(work, pkgPath, src, fileName, runPat string) (string, error) {
	repo := repoDir()
	os.MkdirAll(work, 0o755)
	alt, err := writeAltMod(work)
	if err != nil {
		return "", err
	}
	rel := strings.TrimPrefix(pkgPath, "github.com/0chain/common")
	rel = strings.TrimPrefix(rel, "/")
	pkgDir := filepath.Join(repo, rel)
	testFile := filepath.Join(work, fileName)
	if err := os.WriteFile(testFile, []byte(src), 0o644); err != nil {
		return "", err
	}
	replace := map[string]string{filepath.Join(pkgDir, fileName): testFile}
	// blank the package's own tests: only the generated test must run (and core/util's external
	// test package does not build in this sandbox)
	entries, _ := os.ReadDir(pkgDir)
	for _, e := range entries {
		if strings.HasSuffix(e.Name(), "_test.go") {
			replace[filepath.Join(pkgDir, e.Name())] = ""
		}
	}
	ov, _ := json.Marshal(map[string]interface{}{"Replace": replace})
	ovFile := filepath.Join(work, "overlay.json")
	os.WriteFile(ovFile, ov, 0o644)
	timeout := "120s"
	if t := os.Getenv("GOCV_TEST_TIMEOUT"); t != "" {
		timeout = t
	}
	argv := []string{"test", "-modfile=" + alt, "-overlay=" + ovFile, "-vet=off", "-count=1", "-v", "-timeout", timeout, "-run", runPat}
	if strings.Contains(src, "// gocv-flags: -race") {
		argv = append(argv, "-race")
	}
	argv = append(argv, "./"+rel)
	cmd := exec.Command("go", argv...)
	cmd.Dir = repo
	cmd.Env = goEnv()
	out, err := cmd.CombinedOutput()
	return string(out), err
}

var _ = ssa.NewProgram
