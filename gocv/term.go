package main

// SMT term AST, sorts (as SMT-LIB text), printer and a light simplifier.

import (
	"fmt"
	"math/big"
	"sort"
	"strings"
)

const (
	SBool  = "Bool"
	SInt   = "Int"
	SFP64  = "(_ FloatingPoint 11 53)"
	SFP32  = "(_ FloatingPoint 8 24)"
	SStr   = "Str"
	SSlice = "Slice"
	SIface = "Iface"
	SRM    = "RoundingMode"
)

func SBV(w int) string { return fmt.Sprintf("(_ BitVec %d)", w) }

func SArr(idx, elem string) string { return "(Array " + idx + " " + elem + ")" }

func bvWidth(s string) int {
	var w int
	if _, err := fmt.Sscanf(s, "(_ BitVec %d)", &w); err == nil {
		return w
	}
	return 0
}

func isArr(s string) bool { return strings.HasPrefix(s, "(Array ") }

// arrParts splits "(Array I E)" into I and E.
func arrParts(s string) (string, string) {
	if !isArr(s) {
		return "", ""
	}
	body := s[len("(Array ") : len(s)-1]
	// first sort token
	depth := 0
	for i, c := range body {
		switch c {
		case '(':
			depth++
		case ')':
			depth--
		case ' ':
			if depth == 0 {
				return body[:i], body[i+1:]
			}
		}
	}
	return "", ""
}

type Term struct {
	Op    string  // symbol / operator / literal text / "forall" / "exists"
	Args  []*Term // operands; for quantifiers Args[0] is the body
	Sort  string
	Kind  int     // kVar, kLit, kApp, kQuant
	Bound []*Term // quantifier variables (kVar terms)
	Pats  [][]*Term
}

const (
	kApp = iota
	kVar
	kLit
	kQuant
)

func Var(name, sort string) *Term { return &Term{Op: name, Sort: sort, Kind: kVar} }
func Lit(text, sort string) *Term { return &Term{Op: text, Sort: sort, Kind: kLit} }
func App(op, sort string, args ...*Term) *Term {
	for i, a := range args {
		if a == nil {
			panic(fmt.Sprintf("nil arg %d to %s", i, op))
		}
	}
	return &Term{Op: op, Sort: sort, Args: args, Kind: kApp}
}

var (
	TTrue  = Lit("true", SBool)
	TFalse = Lit("false", SBool)
)

func IntLit(n int64) *Term { return BigLit(big.NewInt(n)) }
func BigLit(n *big.Int) *Term {
	if n.Sign() < 0 {
		return Lit("(- "+new(big.Int).Neg(n).String()+")", SInt)
	}
	return Lit(n.String(), SInt)
}
func BVLit(n *big.Int, w int) *Term {
	m := new(big.Int).Set(n)
	mod := new(big.Int).Lsh(big.NewInt(1), uint(w))
	m.Mod(m, mod)
	return Lit(fmt.Sprintf("(_ bv%s %d)", m.String(), w), SBV(w))
}

func (t *Term) isTrue() bool  { return t.Kind == kLit && t.Op == "true" }
func (t *Term) isFalse() bool { return t.Kind == kLit && t.Op == "false" }

// intLitVal returns the value of an Int literal.
func (t *Term) intLitVal() (*big.Int, bool) {
	if t.Kind != kLit || t.Sort != SInt {
		return nil, false
	}
	s := t.Op
	neg := false
	if strings.HasPrefix(s, "(- ") {
		neg = true
		s = s[3 : len(s)-1]
	}
	n, ok := new(big.Int).SetString(s, 10)
	if !ok {
		return nil, false
	}
	if neg {
		n.Neg(n)
	}
	return n, true
}

func Not(a *Term) *Term {
	if a.isTrue() {
		return TFalse
	}
	if a.isFalse() {
		return TTrue
	}
	if a.Kind == kApp && a.Op == "not" {
		return a.Args[0]
	}
	return App("not", SBool, a)
}

func And(as ...*Term) *Term {
	var out []*Term
	for _, a := range as {
		if a == nil || a.isTrue() {
			continue
		}
		if a.isFalse() {
			return TFalse
		}
		if a.Kind == kApp && a.Op == "and" {
			out = append(out, a.Args...)
			continue
		}
		out = append(out, a)
	}
	switch len(out) {
	case 0:
		return TTrue
	case 1:
		return out[0]
	}
	return App("and", SBool, out...)
}

func Or(as ...*Term) *Term {
	var out []*Term
	for _, a := range as {
		if a == nil || a.isFalse() {
			continue
		}
		if a.isTrue() {
			return TTrue
		}
		out = append(out, a)
	}
	switch len(out) {
	case 0:
		return TFalse
	case 1:
		return out[0]
	}
	return App("or", SBool, out...)
}

func Implies(a, b *Term) *Term {
	if a.isTrue() {
		return b
	}
	if a.isFalse() || b.isTrue() {
		return TTrue
	}
	if b.isFalse() {
		return Not(a)
	}
	return App("=>", SBool, a, b)
}

func Eq(a, b *Term) *Term {
	if a.Sort != b.Sort {
		panic(fmt.Sprintf("Eq sort mismatch: %s : %s  vs  %s : %s", a, a.Sort, b, b.Sort))
	}
	if a == b || (a.Kind != kQuant && a.String() == b.String()) {
		return TTrue
	}
	if a.Kind == kLit && b.Kind == kLit && a.Sort != SFP64 && a.Sort != SFP32 {
		// distinct literals of the same sort (Int/BV/Bool); literal text is canonical
		return TFalse
	}
	if a.Sort == SFP64 || a.Sort == SFP32 {
		// structural equality is '='; Go's == is fp.eq and is emitted by the translator, not here
		return App("=", SBool, a, b)
	}
	return App("=", SBool, a, b)
}

func Ite(c, a, b *Term) *Term {
	if c.isTrue() {
		return a
	}
	if c.isFalse() {
		return b
	}
	if a.Sort != b.Sort {
		panic(fmt.Sprintf("Ite sort mismatch: %s vs %s", a.Sort, b.Sort))
	}
	return App("ite", a.Sort, c, a, b)
}

// defOf: definitions of named heap versions (v = store(...)), so that reads through a freshly
// written version simplify syntactically.
var defOf = map[string]*Term{}

func Select(arr, idx *Term) *Term {
	_, e := arrParts(arr.Sort)
	if e == "" {
		panic("select on non-array " + arr.Sort + " " + arr.String())
	}
	if arr.Kind == kVar {
		if d, ok := defOf[arr.Op]; ok && d.Kind == kApp && d.Op == "store" && d.Args[1].String() == idx.String() {
			return d.Args[2]
		}
	}
	// select(store(a,i,v), i) = v (syntactic)
	if arr.Kind == kApp && arr.Op == "store" && arr.Args[1].String() == idx.String() {
		return arr.Args[2]
	}
	return App("select", e, arr, idx)
}

func Store(arr, idx, v *Term) *Term {
	_, e := arrParts(arr.Sort)
	if e != v.Sort {
		panic(fmt.Sprintf("store sort mismatch: array %s value %s (%s)", arr.Sort, v.Sort, v))
	}
	return App("store", arr.Sort, arr, idx, v)
}

func Forall(bound []*Term, body *Term, pats ...[]*Term) *Term {
	if len(bound) == 0 {
		return body
	}
	return &Term{Op: "forall", Args: []*Term{body}, Sort: SBool, Kind: kQuant, Bound: bound, Pats: pats}
}
func Exists(bound []*Term, body *Term) *Term {
	if len(bound) == 0 {
		return body
	}
	return &Term{Op: "exists", Args: []*Term{body}, Sort: SBool, Kind: kQuant, Bound: bound}
}

// arithmetic helpers on Int with constant folding
func IAdd(a, b *Term) *Term {
	if x, ok := a.intLitVal(); ok {
		if y, ok := b.intLitVal(); ok {
			return BigLit(new(big.Int).Add(x, y))
		}
		if x.Sign() == 0 {
			return b
		}
	}
	if y, ok := b.intLitVal(); ok && y.Sign() == 0 {
		return a
	}
	return App("+", SInt, a, b)
}
func ISub(a, b *Term) *Term {
	if x, ok := a.intLitVal(); ok {
		if y, ok := b.intLitVal(); ok {
			return BigLit(new(big.Int).Sub(x, y))
		}
	}
	if y, ok := b.intLitVal(); ok && y.Sign() == 0 {
		return a
	}
	return App("-", SInt, a, b)
}
func IMul(a, b *Term) *Term {
	if x, ok := a.intLitVal(); ok {
		if y, ok := b.intLitVal(); ok {
			return BigLit(new(big.Int).Mul(x, y))
		}
	}
	return App("*", SInt, a, b)
}
func ILe(a, b *Term) *Term {
	if x, ok := a.intLitVal(); ok {
		if y, ok := b.intLitVal(); ok {
			if x.Cmp(y) <= 0 {
				return TTrue
			}
			return TFalse
		}
	}
	return App("<=", SBool, a, b)
}
func ILt(a, b *Term) *Term {
	if x, ok := a.intLitVal(); ok {
		if y, ok := b.intLitVal(); ok {
			if x.Cmp(y) < 0 {
				return TTrue
			}
			return TFalse
		}
	}
	return App("<", SBool, a, b)
}

func (t *Term) String() string {
	var sb strings.Builder
	t.write(&sb)
	return sb.String()
}

func (t *Term) write(sb *strings.Builder) {
	switch t.Kind {
	case kVar, kLit:
		sb.WriteString(t.Op)
	case kQuant:
		sb.WriteString("(")
		sb.WriteString(t.Op)
		sb.WriteString(" (")
		for _, b := range t.Bound {
			sb.WriteString("(" + b.Op + " " + b.Sort + ")")
		}
		sb.WriteString(") ")
		if len(t.Pats) > 0 {
			sb.WriteString("(! ")
			t.Args[0].write(sb)
			for _, p := range t.Pats {
				sb.WriteString(" :pattern (")
				for i, x := range p {
					if i > 0 {
						sb.WriteString(" ")
					}
					x.write(sb)
				}
				sb.WriteString(")")
			}
			sb.WriteString(")")
		} else {
			t.Args[0].write(sb)
		}
		sb.WriteString(")")
	default:
		if len(t.Args) == 0 {
			sb.WriteString(t.Op)
			return
		}
		sb.WriteString("(")
		sb.WriteString(t.Op)
		for _, a := range t.Args {
			sb.WriteString(" ")
			a.write(sb)
		}
		sb.WriteString(")")
	}
}

// Subst replaces variables by name.
func (t *Term) Subst(m map[string]*Term) *Term {
	if len(m) == 0 {
		return t
	}
	switch t.Kind {
	case kVar:
		if r, ok := m[t.Op]; ok {
			return r
		}
		return t
	case kLit:
		return t
	case kQuant:
		m2 := m
		for _, b := range t.Bound {
			if _, ok := m[b.Op]; ok {
				if &m2 == &m || len(m2) == len(m) {
					m2 = map[string]*Term{}
					for k, v := range m {
						m2[k] = v
					}
				}
				delete(m2, b.Op)
			}
		}
		nb := t.Args[0].Subst(m2)
		var np [][]*Term
		for _, p := range t.Pats {
			var q []*Term
			for _, x := range p {
				q = append(q, x.Subst(m2))
			}
			np = append(np, q)
		}
		return &Term{Op: t.Op, Args: []*Term{nb}, Sort: t.Sort, Kind: kQuant, Bound: t.Bound, Pats: np}
	}
	changed := false
	na := make([]*Term, len(t.Args))
	for i, a := range t.Args {
		na[i] = a.Subst(m)
		if na[i] != a {
			changed = true
		}
	}
	if !changed {
		return t
	}
	return &Term{Op: t.Op, Args: na, Sort: t.Sort, Kind: kApp}
}

// collect free variable symbols and applied function symbols
func (t *Term) collect(vars map[string]string, apps map[string]*Term, bound map[string]bool) {
	switch t.Kind {
	case kVar:
		if !bound[t.Op] {
			vars[t.Op] = t.Sort
		}
	case kLit:
	case kQuant:
		nb := map[string]bool{}
		for k := range bound {
			nb[k] = true
		}
		for _, b := range t.Bound {
			nb[b.Op] = true
		}
		t.Args[0].collect(vars, apps, nb)
		for _, p := range t.Pats {
			for _, x := range p {
				x.collect(vars, apps, nb)
			}
		}
	default:
		if _, ok := apps[t.Op]; !ok {
			apps[t.Op] = t
		}
		for _, a := range t.Args {
			a.collect(vars, apps, bound)
		}
	}
}

// groundApps collects applications of the named functions whose arguments contain no bound variable.
func (t *Term) groundApps(names map[string]bool, out map[string]*Term, bound map[string]bool) bool {
	// returns whether t is ground (no bound var)
	switch t.Kind {
	case kVar:
		return !bound[t.Op]
	case kLit:
		return true
	case kQuant:
		nb := map[string]bool{}
		for k := range bound {
			nb[k] = true
		}
		for _, b := range t.Bound {
			nb[b.Op] = true
		}
		t.Args[0].groundApps(names, out, nb)
		return false
	}
	g := true
	for _, a := range t.Args {
		if !a.groundApps(names, out, bound) {
			g = false
		}
	}
	if g && names[t.Op] {
		out[t.String()] = t
	}
	return g
}

func sortedKeys[V any](m map[string]V) []string {
	ks := make([]string, 0, len(m))
	for k := range m {
		ks = append(ks, k)
	}
	sort.Strings(ks)
	return ks
}
