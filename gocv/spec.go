package main

// Translation of contract expressions into SMT terms in a program state.

import (
	"fmt"
	"go/constant"
	"go/types"
	"math/big"
	"strconv"
	"strings"

	"golang.org/x/tools/go/ssa"
)

type SpecEnv struct {
	x            *Exec
	s            *State
	names        map[string]Val
	fr           *Frame // optional: loop invariants resolve source variables
	heap         map[string]*Term
	alloc        *Term
	old          *SpecEnv
	bound        map[string]Val
	fnPkg        *types.Package
	noPositional bool
	outer        map[string]Val // parameters of the function under verification, visible after the frame's own names
	entryAlloc   *Term
	pure         bool // no state available (spec function bodies, lemmas)
}

func (env *SpecEnv) curHeap() map[string]*Term {
	if env.heap != nil {
		return env.heap
	}
	return env.s.heap
}

func (env *SpecEnv) heapGet(key, sort string) *Term {
	h := env.curHeap()
	if t, ok := h[key]; ok {
		return t
	}
	// not yet touched on this path: initial version (same in old and new state)
	t := Var(key+"!0", sort)
	if _, ok := env.s.heap[key]; !ok {
		env.s.heap[key] = t
	}
	if env.heap != nil {
		env.heap[key] = t
	}
	env.x.heapSorts[key] = sort
	return t
}

func (env *SpecEnv) sub() *SpecEnv {
	n := *env
	n.bound = map[string]Val{}
	for k, v := range env.bound {
		n.bound[k] = v
	}
	return &n
}

func (x *Exec) specBool(s *State, fr *Frame, e *Expr, extra map[string]Val) (*Term, error) {
	env := &SpecEnv{x: x, s: s, fr: fr, names: extra, fnPkg: pkgOf(fr.fn)}
	if x.fn == fr.fn {
		env.old = &SpecEnv{x: x, s: s, fr: fr, names: x.params, heap: x.entryHeap, alloc: x.entryAlloc, fnPkg: pkgOf(fr.fn)}
		env.entryAlloc = x.entryAlloc
	} else if fr.depth > 0 {
		// a loop contract of the function under verification evaluated inside an inlined helper
		// (the loop was extracted): the helper's own names first, then the outer parameters
		env.outer = x.params
		env.old = &SpecEnv{x: x, s: s, fr: fr, outer: x.params, heap: x.entryHeap, alloc: x.entryAlloc, fnPkg: pkgOf(fr.fn)}
		env.entryAlloc = x.entryAlloc
	}
	return env.boolExpr(e)
}

func (env *SpecEnv) boolExpr(e *Expr) (*Term, error) {
	v, err := env.eval(e)
	if err != nil {
		return nil, err
	}
	if v.T == nil || v.T.Sort != SBool {
		return nil, fmt.Errorf("expression %s is not boolean", e)
	}
	return v.T, nil
}

var specConsts = map[string]string{
	"MaxUint64": "18446744073709551615", "MaxInt64": "9223372036854775807", "MinInt64": "-9223372036854775808",
	"MaxInt": "9223372036854775807", "MinInt": "-9223372036854775808", "MaxUint32": "4294967295", "MaxInt32": "2147483647",
	"MinInt32": "-2147483648", "MaxUint8": "255",
}

type untyped struct{} // marker GoT for untyped integer literals

func (untyped) Underlying() types.Type { return types.Typ[types.UntypedInt] }
func (untyped) String() string         { return "untyped int" }

var untypedInt types.Type = types.Typ[types.UntypedInt]

func (env *SpecEnv) lookupName(name string) (Val, bool, error) {
	if v, ok := env.bound[name]; ok {
		return v, true, nil
	}
	if v, ok := env.names[name]; ok {
		return v, true, nil
	}
	if env.fr != nil {
		if v, ok := env.fr.vars[name]; ok {
			return v, true, nil
		}
		if v, ok := env.fr.vars["&"+name]; ok && v.LV != nil {
			t, err := env.loadLV(v.LV)
			if err != nil {
				return Val{}, false, err
			}
			return tv(t, v.GoT), true, nil
		}
		for _, p := range env.fr.fn.Params {
			if p.Name() == name {
				if v, ok := env.fr.vals[p]; ok {
					return v, true, nil
				}
			}
		}
		for _, fv := range env.fr.fn.FreeVars {
			if fv.Name() == name {
				if v, ok := env.fr.vals[fv]; ok {
					return v, true, nil
				}
			}
		}
		if v, ok := env.outer[name]; ok {
			return v, true, nil
		}
		// a local the contract names but the code no longer has: the contract recorded the
		// function's locals (declaration order) when it was written. The names that disappeared
		// and the names that are new are paired in order of appearance (a renaming keeps the
		// number of locals); the invariant is still checked, so a wrong pairing cannot prove anything.
		if !env.noPositional {
			if fc := env.x.contractFor(env.fr.fn); fc != nil && len(fc.Locals) > 0 {
				now := declaredLocals(env.fr.fn)
				if !inList(now, name) && inList(fc.Locals, name) {
					var gone, fresh []string
					for _, n := range fc.Locals {
						if !inList(now, n) && !inList(gone, n) {
							gone = append(gone, n)
						}
					}
					for _, n := range now {
						if !inList(fc.Locals, n) && !inList(fresh, n) {
							fresh = append(fresh, n)
						}
					}
					if len(gone) == len(fresh) {
						for k, g := range gone {
							if g == name {
								sub := *env
								sub.noPositional = true
								if v, ok, err := sub.lookupName(fresh[k]); ok || err != nil {
									return v, ok, err
								}
							}
						}
					}
				}
			}
		}
	}
	return Val{}, false, nil
}

func inList(l []string, s string) bool {
	for _, x := range l {
		if x == s {
			return true
		}
	}
	return false
}

// loadLV reads a location in the environment's heap (which may be the old heap).
func (env *SpecEnv) loadLV(lv *LValue) (*Term, error) {
	env.x.inSpec = true
	defer func() { env.x.inSpec = false }()
	if env.heap == nil {
		return env.x.load(env.s, lv)
	}
	// evaluate against the snapshot: temporarily swap
	saved := env.s.heap
	tmp := map[string]*Term{}
	for k, v := range env.heap {
		tmp[k] = v
	}
	env.s.heap = tmp
	t, err := env.x.load(env.s, lv)
	for k, v := range tmp {
		if _, ok := env.heap[k]; !ok {
			env.heap[k] = v
			if _, ok2 := saved[k]; !ok2 {
				saved[k] = v
			}
		}
	}
	env.s.heap = saved
	return t, err
}

func (env *SpecEnv) mode() string { return env.x.mode }

func (env *SpecEnv) intLit(n *big.Int) Val {
	return Val{T: BigLit(n), GoT: untypedInt}
}

// coerce an untyped Int literal to the sort of the other operand
func (env *SpecEnv) coerce(a, b Val) (Val, Val, error) {
	if a.T == nil || b.T == nil {
		return a, b, fmt.Errorf("non-scalar operand")
	}
	if a.T.Sort == b.T.Sort {
		return a, b, nil
	}
	fix := func(lit, other Val) (Val, bool) {
		n, ok := lit.T.intLitVal()
		if !ok {
			return lit, false
		}
		if w := bvWidth(other.T.Sort); w > 0 {
			return Val{T: BVLit(n, w), GoT: other.GoT}, true
		}
		if other.T.Sort == SFP64 {
			f, _ := new(big.Float).SetInt(n).Float64()
			return Val{T: fpLit(f), GoT: other.GoT}, true
		}
		return lit, false
	}
	if na, ok := fix(a, b); ok {
		return na, b, nil
	}
	if nb, ok := fix(b, a); ok {
		return a, nb, nil
	}
	return a, b, fmt.Errorf("sort mismatch: %s : %s vs %s : %s", a.T, a.T.Sort, b.T, b.T.Sort)
}

func isSigned(v Val) bool {
	if v.GoT == nil {
		return false
	}
	if ii, ok := intInfoOf(v.GoT); ok {
		return ii.signed
	}
	return false
}

func (env *SpecEnv) eval(e *Expr) (Val, error) {
	x := env.x
	switch e.Kind {
	case eInt:
		n, ok := new(big.Int).SetString(e.Name, 0)
		if !ok {
			return Val{}, fmt.Errorf("bad integer %q", e.Name)
		}
		return env.intLit(n), nil
	case eFloat:
		f, err := strconv.ParseFloat(e.Name, 64)
		if err != nil {
			return Val{}, err
		}
		return Val{T: fpLit(f), GoT: types.Typ[types.Float64]}, nil
	case eStr:
		return Val{T: x.strLit(env.s, e.Name), GoT: types.Typ[types.String]}, nil
	case eIdent:
		switch e.Name {
		case "true":
			return tv(TTrue, types.Typ[types.Bool]), nil
		case "false":
			return tv(TFalse, types.Typ[types.Bool]), nil
		case "nil":
			return Val{T: IntLit(0), GoT: types.Typ[types.UntypedNil]}, nil
		}
		if v, ok, err := env.lookupName(e.Name); err != nil {
			return Val{}, err
		} else if ok {
			return v, nil
		}
		if gs, ok := x.eng.cs.Ghost[e.Name]; ok {
			srt, _, err := env.parseSort(gs)
			if err != nil {
				return Val{}, err
			}
			return Val{T: env.heapGet("X$"+e.Name, SArr(SInt, srt))}, nil
		}
		if c, ok := specConsts[e.Name]; ok {
			n, _ := new(big.Int).SetString(c, 10)
			return env.intLit(n), nil
		}
		if ce, ok := x.eng.cs.Consts[e.Name]; ok {
			return env.eval(ce)
		}
		if env.fnPkg != nil {
			if obj := env.fnPkg.Scope().Lookup(e.Name); obj != nil {
				switch o := obj.(type) {
				case *types.Const:
					return env.goConst(o)
				case *types.Var:
					pkg := x.eng.pkgs[env.fnPkg.Path()]
					if pkg != nil {
						if g, ok := pkg.Members[e.Name].(*ssa.Global); ok {
							t, err := env.loadLV(&LValue{Kind: lvGlobal, Global: g, Typ: o.Type()})
							if err != nil {
								return Val{}, err
							}
							return tv(t, o.Type()), nil
						}
					}
				}
			}
		}
		return Val{}, fmt.Errorf("unknown identifier %q", e.Name)
	case eUn:
		if e.Op == "&" {
			// address of an addressable local (a struct or cell the function allocates)
			if e.Args[0].Kind == eIdent && env.fr != nil {
				if v, ok := env.fr.vars["&"+e.Args[0].Name]; ok && v.LV != nil && v.LV.Ref != nil && v.LV.Base == nil {
					return tv(v.LV.Ref, types.NewPointer(v.GoT)), nil
				}
			}
			return Val{}, fmt.Errorf("%s: address of something that is not an addressable local", e)
		}
		a, err := env.eval(e.Args[0])
		if err != nil {
			return Val{}, err
		}
		switch e.Op {
		case "*":
			if a.LV != nil {
				t, err := env.loadLV(a.LV)
				if err != nil {
					return Val{}, err
				}
				return tv(t, a.GoT), nil
			}
			pt, ok := a.GoT.Underlying().(*types.Pointer)
			if !ok {
				return Val{}, fmt.Errorf("%s: dereference of non-pointer", e)
			}
			t, err := env.loadLV(&LValue{Kind: lvCell, Ref: a.T, Typ: pt.Elem()})
			if err != nil {
				return Val{}, err
			}
			return tv(t, pt.Elem()), nil
		case "!":
			return tv(Not(a.T), a.GoT), nil
		case "-":
			if n, ok := a.T.intLitVal(); ok {
				return env.intLit(new(big.Int).Neg(n)), nil
			}
			if a.T.Sort == SInt {
				return tv(ISub(IntLit(0), a.T), a.GoT), nil
			}
			if bvWidth(a.T.Sort) > 0 {
				return tv(App("bvneg", a.T.Sort, a.T), a.GoT), nil
			}
			return tv(App("fp.neg", a.T.Sort, a.T), a.GoT), nil
		}
	case eBin:
		return env.evalBin(e)
	case eCond:
		c, err := env.boolExpr(e.Args[0])
		if err != nil {
			return Val{}, err
		}
		a, err := env.eval(e.Args[1])
		if err != nil {
			return Val{}, err
		}
		b, err := env.eval(e.Args[2])
		if err != nil {
			return Val{}, err
		}
		a, b, err = env.coerce(a, b)
		if err != nil {
			return Val{}, err
		}
		gt := a.GoT
		if gt == untypedInt {
			gt = b.GoT
		}
		return tv(Ite(c, a.T, b.T), gt), nil
	case eQuant:
		sub := env.sub()
		var bs []*Term
		var guards []*Term
		for _, b := range e.Bound {
			srt, gt, err := env.parseSort(b.Type)
			if err != nil {
				return Val{}, err
			}
			v := Var("q$"+b.Name, srt)
			bs = append(bs, v)
			sub.bound[b.Name] = Val{T: v, GoT: gt}
			if gt != nil && srt != SStr {
				guards = append(guards, x.eng.typeInv(v, gt, x.mode, nil))
			}
		}
		body, err := sub.boolExpr(e.Args[0])
		if err != nil {
			return Val{}, err
		}
		if e.Op == "forall" {
			return tv(Forall(bs, Implies(And(guards...), body)), types.Typ[types.Bool]), nil
		}
		return tv(Exists(bs, And(append(guards, body)...)), types.Typ[types.Bool]), nil
	case eField:
		return env.evalField(e)
	case eIndex:
		return env.evalIndex(e)
	case eSliceE:
		return env.evalSlice(e)
	case eIs, eCast:
		a, err := env.eval(e.Args[0])
		if err != nil {
			return Val{}, err
		}
		if a.T == nil || a.T.Sort != SIface {
			return Val{}, fmt.Errorf("%s: operand is not an interface value", e)
		}
		t, err := env.resolveType(e.Type)
		if err != nil {
			return Val{}, err
		}
		if e.Kind == eIs {
			return tv(Eq(ifTag(a.T), IntLit(int64(x.eng.tagOf(t)))), types.Typ[types.Bool]), nil
		}
		if isPointerLike(t) {
			return tv(ifVal(a.T), t), nil
		}
		_, unbox, srt := x.eng.boxFuns(t, x.mode)
		return tv(App(unbox, srt, ifVal(a.T)), t), nil
	case eCall:
		return env.evalCall(e)
	}
	return Val{}, fmt.Errorf("cannot evaluate %s", e)
}

func (env *SpecEnv) goConst(o *types.Const) (Val, error) {
	x := env.x
	t := o.Type()
	switch {
	case isBool(t):
		if constant.BoolVal(o.Val()) {
			return tv(TTrue, t), nil
		}
		return tv(TFalse, t), nil
	case isString(t):
		return tv(x.strLit(env.s, constant.StringVal(o.Val())), t), nil
	case isFloat(t):
		f, _ := constant.Float64Val(o.Val())
		if b, ok := t.Underlying().(*types.Basic); ok && b.Kind() == types.UntypedFloat {
			if iv := constant.ToInt(o.Val()); iv.Kind() == constant.Int {
				n, _ := new(big.Int).SetString(iv.ExactString(), 10)
				return env.intLit(n), nil
			}
		}
		return tv(fpLit(f), t), nil
	}
	if _, ok := intInfoOf(t); ok {
		n, _ := new(big.Int).SetString(constant.ToInt(o.Val()).ExactString(), 10)
		v := env.intLit(n)
		if b, isB := t.Underlying().(*types.Basic); !isB || b.Info()&types.IsUntyped == 0 {
			if x.mode == "bv" {
				ii, _ := intInfoOf(t)
				return tv(BVLit(n, ii.w), t), nil
			}
			v.GoT = t
		}
		return v, nil
	}
	return Val{}, fmt.Errorf("unsupported constant %s", o.Name())
}

func (env *SpecEnv) parseSort(s string) (string, types.Type, error) {
	switch s {
	case "int", "Int", "":
		return SInt, nil, nil
	case "bool", "Bool":
		return SBool, nil, nil
	case "Str", "string":
		return SStr, types.Typ[types.String], nil
	case "float64":
		return SFP64, types.Typ[types.Float64], nil
	case "u64":
		return SBV(64), types.Typ[types.Uint64], nil
	case "i64":
		return SBV(64), types.Typ[types.Int64], nil
	case "i32":
		return SBV(32), types.Typ[types.Int32], nil
	case "u8":
		return SBV(8), types.Typ[types.Uint8], nil
	case "Ref":
		return SInt, nil, nil
	case "Slice":
		return SSlice, nil, nil
	case "Iface":
		return SIface, nil, nil
	}
	if strings.HasPrefix(s, "(") {
		return s, nil, nil
	}
	t, err := env.resolveType(s)
	if err != nil {
		return "", nil, err
	}
	return env.x.sortOf(t), t, nil
}

func (env *SpecEnv) resolveType(s string) (types.Type, error) {
	s = strings.TrimSpace(s)
	if strings.HasPrefix(s, "*") {
		t, err := env.resolveType(s[1:])
		if err != nil {
			return nil, err
		}
		return types.NewPointer(t), nil
	}
	if strings.HasPrefix(s, "[]") {
		t, err := env.resolveType(s[2:])
		if err != nil {
			return nil, err
		}
		return types.NewSlice(t), nil
	}
	for _, b := range types.Typ {
		if b.Name() == s {
			return b, nil
		}
	}
	if s == "byte" {
		return types.Universe.Lookup("byte").Type(), nil
	}
	if s == "error" {
		return types.Universe.Lookup("error").Type(), nil
	}
	pkg := env.fnPkg
	name := s
	if i := strings.LastIndex(s, "."); i >= 0 {
		pn := s[:i]
		name = s[i+1:]
		pkg = nil
		for path, p := range env.x.eng.pkgs {
			if p.Pkg.Name() == pn || path == pn {
				pkg = p.Pkg
			}
		}
		if pkg == nil {
			for _, p := range env.x.eng.prog.AllPackages() {
				if p.Pkg.Name() == pn || p.Pkg.Path() == pn {
					pkg = p.Pkg
				}
			}
		}
	}
	if pkg == nil {
		return nil, fmt.Errorf("cannot resolve type %q", s)
	}
	obj := pkg.Scope().Lookup(name)
	if tn, ok := obj.(*types.TypeName); ok {
		return tn.Type(), nil
	}
	return nil, fmt.Errorf("type %q not found in package %s", name, pkg.Path())
}

func (env *SpecEnv) evalBin(e *Expr) (Val, error) {
	x := env.x
	boolT := types.Typ[types.Bool]
	switch e.Op {
	case "&&", "||", "==>", "<==>":
		a, err := env.boolExpr(e.Args[0])
		if err != nil {
			return Val{}, err
		}
		b, err := env.boolExpr(e.Args[1])
		if err != nil {
			return Val{}, err
		}
		switch e.Op {
		case "&&":
			return tv(And(a, b), boolT), nil
		case "||":
			return tv(Or(a, b), boolT), nil
		case "==>":
			return tv(Implies(a, b), boolT), nil
		default:
			return tv(Eq(a, b), boolT), nil
		}
	case "in":
		k, err := env.eval(e.Args[0])
		if err != nil {
			return Val{}, err
		}
		m, err := env.eval(e.Args[1])
		if err != nil {
			return Val{}, err
		}
		mt, ok := m.GoT.Underlying().(*types.Map)
		if !ok {
			return Val{}, fmt.Errorf("'in' needs a map")
		}
		hk, _, _ := x.mapKeys(mt)
		ks := x.sortOf(mt.Key())
		has := Select(env.heapGet(hk, SArr(SInt, SArr(ks, SBool))), m.T)
		return tv(And(Not(Eq(m.T, IntLit(0))), Select(has, k.T)), boolT), nil
	}
	a, err := env.eval(e.Args[0])
	if err != nil {
		return Val{}, err
	}
	b, err := env.eval(e.Args[1])
	if err != nil {
		return Val{}, err
	}
	// nil comparisons
	isNil := func(v Val) bool { return v.GoT == types.Typ[types.UntypedNil] }
	if (e.Op == "==" || e.Op == "!=") && (isNil(a) || isNil(b)) {
		o := a
		if isNil(a) {
			o = b
		}
		var r *Term
		switch o.T.Sort {
		case SIface:
			r = Eq(ifTag(o.T), IntLit(0))
		case SSlice:
			r = Eq(slArr(o.T), IntLit(0))
		case SInt:
			r = Eq(o.T, IntLit(0))
		default:
			return Val{}, fmt.Errorf("nil comparison on sort %s", o.T.Sort)
		}
		if e.Op == "!=" {
			r = Not(r)
		}
		return tv(r, boolT), nil
	}
	a, b, err = env.coerce(a, b)
	if err != nil {
		return Val{}, fmt.Errorf("%s: %v", e, err)
	}
	gt := a.GoT
	if gt == untypedInt || gt == nil {
		gt = b.GoT
	}
	srt := a.T.Sort
	switch e.Op {
	case "==", "!=":
		var r *Term
		if srt == SFP64 || srt == SFP32 {
			r = App("fp.eq", SBool, a.T, b.T)
		} else {
			r = Eq(a.T, b.T)
		}
		if e.Op == "!=" {
			r = Not(r)
		}
		return tv(r, boolT), nil
	}
	if srt == SInt {
		switch e.Op {
		case "+":
			return tv(IAdd(a.T, b.T), gt), nil
		case "-":
			return tv(ISub(a.T, b.T), gt), nil
		case "*":
			return tv(IMul(a.T, b.T), gt), nil
		case "/":
			if x, ok := a.T.intLitVal(); ok {
				if y, ok := b.T.intLitVal(); ok && y.Sign() > 0 && x.Sign() >= 0 {
					return tv(BigLit(new(big.Int).Div(x, y)), gt), nil
				}
			}
			return tv(App("div", SInt, a.T, b.T), gt), nil
		case "%":
			return tv(App("mod", SInt, a.T, b.T), gt), nil
		case "<":
			return tv(ILt(a.T, b.T), boolT), nil
		case "<=":
			return tv(ILe(a.T, b.T), boolT), nil
		case ">":
			return tv(ILt(b.T, a.T), boolT), nil
		case ">=":
			return tv(ILe(b.T, a.T), boolT), nil
		case "<<":
			if k, ok := b.T.intLitVal(); ok {
				return tv(IMul(a.T, pow2(uint(k.Int64()))), gt), nil
			}
		case ">>":
			if k, ok := b.T.intLitVal(); ok {
				return tv(App("div", SInt, a.T, pow2(uint(k.Int64()))), gt), nil
			}
		case "&":
			if m, ok := b.T.intLitVal(); ok {
				if k := maskBits(m); k >= 0 {
					return tv(App("mod", SInt, a.T, pow2(uint(k))), gt), nil
				}
			}
		}
		return Val{}, fmt.Errorf("unsupported Int operator %s in %s", e.Op, e)
	}
	if w := bvWidth(srt); w > 0 {
		sg := isSigned(a) || isSigned(b)
		pick := func(sgn, uns string) string {
			if sg {
				return sgn
			}
			return uns
		}
		switch e.Op {
		case "+":
			return tv(App("bvadd", srt, a.T, b.T), gt), nil
		case "-":
			return tv(App("bvsub", srt, a.T, b.T), gt), nil
		case "*":
			return tv(App("bvmul", srt, a.T, b.T), gt), nil
		case "/":
			return tv(App(pick("bvsdiv", "bvudiv"), srt, a.T, b.T), gt), nil
		case "%":
			return tv(App(pick("bvsrem", "bvurem"), srt, a.T, b.T), gt), nil
		case "<":
			return tv(App(pick("bvslt", "bvult"), SBool, a.T, b.T), boolT), nil
		case "<=":
			return tv(App(pick("bvsle", "bvule"), SBool, a.T, b.T), boolT), nil
		case ">":
			return tv(App(pick("bvsgt", "bvugt"), SBool, a.T, b.T), boolT), nil
		case ">=":
			return tv(App(pick("bvsge", "bvuge"), SBool, a.T, b.T), boolT), nil
		case "&":
			return tv(App("bvand", srt, a.T, b.T), gt), nil
		case "|":
			return tv(App("bvor", srt, a.T, b.T), gt), nil
		}
		return Val{}, fmt.Errorf("unsupported bit-vector operator %s", e.Op)
	}
	if srt == SFP64 || srt == SFP32 {
		rm := Lit("RNE", SRM)
		switch e.Op {
		case "+":
			return tv(App("fp.add", srt, rm, a.T, b.T), gt), nil
		case "-":
			return tv(App("fp.sub", srt, rm, a.T, b.T), gt), nil
		case "*":
			return tv(App("fp.mul", srt, rm, a.T, b.T), gt), nil
		case "/":
			return tv(App("fp.div", srt, rm, a.T, b.T), gt), nil
		case "<":
			return tv(App("fp.lt", SBool, a.T, b.T), boolT), nil
		case "<=":
			return tv(App("fp.leq", SBool, a.T, b.T), boolT), nil
		case ">":
			return tv(App("fp.gt", SBool, a.T, b.T), boolT), nil
		case ">=":
			return tv(App("fp.geq", SBool, a.T, b.T), boolT), nil
		}
	}
	if srt == SStr && e.Op == "+" {
		return tv(App("seq.++", SStr, a.T, b.T), gt), nil
	}
	return Val{}, fmt.Errorf("unsupported operator %s on sort %s in %s", e.Op, srt, e)
}

func (env *SpecEnv) evalField(e *Expr) (Val, error) {
	x := env.x
	base, err := env.eval(e.Args[0])
	if err != nil {
		return Val{}, err
	}
	if base.GoT == nil {
		return Val{}, fmt.Errorf("%s: base has no Go type", e)
	}
	bt := base.GoT
	ptr := false
	if p, ok := bt.Underlying().(*types.Pointer); ok {
		bt = p.Elem()
		ptr = true
	}
	st, ok := bt.Underlying().(*types.Struct)
	if !ok {
		return Val{}, fmt.Errorf("%s: %s is not a struct", e, bt)
	}
	if x.eng.opaqueStruct(bt) {
		// the executor ignores stores to (and havocs loads of) such fields: a clause about them would
		// speak about a heap the code never writes
		return Val{}, fmt.Errorf("%s: %s is an opaque library struct (its fields are not modelled; list it in transparentExtern)", e, bt)
	}
	// search field (including promoted fields through embedded structs, one level)
	for i := 0; i < st.NumFields(); i++ {
		f := st.Field(i)
		if f.Name() != e.Name {
			continue
		}
		if ptr {
			h := env.heapGet(x.fieldKey(bt, st, i), SArr(SInt, x.sortOf(f.Type())))
			return tv(Select(h, base.T), f.Type()), nil
		}
		return tv(x.eng.structField(bt, st, x.mode, base.T, i), f.Type()), nil
	}
	for i := 0; i < st.NumFields(); i++ {
		f := st.Field(i)
		if !f.Embedded() {
			continue
		}
		var inner Val
		if ptr {
			h := env.heapGet(x.fieldKey(bt, st, i), SArr(SInt, x.sortOf(f.Type())))
			inner = tv(Select(h, base.T), f.Type())
		} else {
			inner = tv(x.eng.structField(bt, st, x.mode, base.T, i), f.Type())
		}
		sub := env.sub()
		sub.bound["$emb"] = inner
		if v, err := sub.evalField(&Expr{Kind: eField, Name: e.Name, Args: []*Expr{{Kind: eIdent, Name: "$emb"}}}); err == nil {
			return v, nil
		}
	}
	return Val{}, fmt.Errorf("%s: no field %s in %s", e, e.Name, bt)
}

func (env *SpecEnv) evalIndex(e *Expr) (Val, error) {
	x := env.x
	a, err := env.eval(e.Args[0])
	if err != nil {
		return Val{}, err
	}
	i, err := env.eval(e.Args[1])
	if err != nil {
		return Val{}, err
	}
	if a.GoT != nil {
		switch u := a.GoT.Underlying().(type) {
		case *types.Slice:
			h := env.heapGet(x.elemKey(u.Elem()), SArr(SInt, SArr(SInt, x.sortOf(u.Elem()))))
			return tv(x.eng.Elem(Select(h, slArr(a.T)), slOff(a.T), i.T), u.Elem()), nil
		case *types.Array:
			return tv(Select(a.T, i.T), u.Elem()), nil
		case *types.Map:
			_, vk, _ := x.mapKeys(u)
			ks := x.sortOf(u.Key())
			V := env.heapGet(vk, SArr(SInt, SArr(ks, x.sortOf(u.Elem()))))
			return tv(Select(Select(V, a.T), i.T), u.Elem()), nil
		case *types.Basic:
			if isString(u) {
				return tv(App("seq.nth", SInt, a.T, i.T), types.Typ[types.Uint8]), nil
			}
		case *types.Pointer:
			if at, ok := u.Elem().Underlying().(*types.Array); ok {
				h := env.heapGet(x.elemKey(at.Elem()), SArr(SInt, SArr(SInt, x.sortOf(at.Elem()))))
				return tv(Select(Select(h, a.T), i.T), at.Elem()), nil
			}
		}
	}
	if isArr(a.T.Sort) {
		_, es := arrParts(a.T.Sort)
		_ = es
		return Val{T: Select(a.T, i.T)}, nil
	}
	if a.T.Sort == SStr {
		return tv(App("seq.nth", SInt, a.T, i.T), types.Typ[types.Uint8]), nil
	}
	return Val{}, fmt.Errorf("%s: cannot index %s", e, a.T.Sort)
}

func (env *SpecEnv) evalSlice(e *Expr) (Val, error) {
	a, err := env.eval(e.Args[0])
	if err != nil {
		return Val{}, err
	}
	var lo, hi *Term
	if e.Args[1] != nil {
		v, err := env.eval(e.Args[1])
		if err != nil {
			return Val{}, err
		}
		lo = v.T
	} else {
		lo = IntLit(0)
	}
	if a.T.Sort == SStr {
		if e.Args[2] != nil {
			v, err := env.eval(e.Args[2])
			if err != nil {
				return Val{}, err
			}
			hi = v.T
		} else {
			hi = App("seq.len", SInt, a.T)
		}
		return tv(App("seq.extract", SStr, a.T, lo, ISub(hi, lo)), a.GoT), nil
	}
	if a.T.Sort == SSlice {
		if e.Args[2] != nil {
			v, err := env.eval(e.Args[2])
			if err != nil {
				return Val{}, err
			}
			hi = v.T
		} else {
			hi = slLen(a.T)
		}
		return tv(mkSlice(slArr(a.T), IAdd(slOff(a.T), lo), ISub(hi, lo), ISub(slCap(a.T), lo)), a.GoT), nil
	}
	return Val{}, fmt.Errorf("%s: cannot slice", e)
}

func (env *SpecEnv) evalCall(e *Expr) (Val, error) {
	x := env.x
	boolT := types.Typ[types.Bool]
	argN := func(n int) error {
		if len(e.Args) != n {
			return fmt.Errorf("%s expects %d argument(s)", e.Name, n)
		}
		return nil
	}
	switch e.Name {
	case "old":
		if err := argN(1); err != nil {
			return Val{}, err
		}
		if env.old == nil {
			return env.eval(e.Args[0])
		}
		o := *env.old
		o.bound = env.bound
		return o.eval(e.Args[0])
	case "len", "cap":
		if err := argN(1); err != nil {
			return Val{}, err
		}
		a, err := env.eval(e.Args[0])
		if err != nil {
			return Val{}, err
		}
		intT := types.Typ[types.Int]
		switch a.T.Sort {
		case SSlice:
			if e.Name == "cap" {
				return tv(slCap(a.T), intT), nil
			}
			return tv(slLen(a.T), intT), nil
		case SStr:
			return tv(App("seq.len", SInt, a.T), intT), nil
		}
		if a.GoT != nil {
			switch u := a.GoT.Underlying().(type) {
			case *types.Map:
				_, _, lk := x.mapKeys(u)
				L := env.heapGet(lk, SArr(SInt, SInt))
				return tv(Ite(Eq(a.T, IntLit(0)), IntLit(0), Select(L, a.T)), intT), nil
			case *types.Array:
				return tv(IntLit(u.Len()), intT), nil
			}
		}
		return Val{}, fmt.Errorf("len of sort %s", a.T.Sort)
	case "wide", "swide":
		a, err := env.eval(e.Args[0])
		if err != nil {
			return Val{}, err
		}
		w := bvWidth(a.T.Sort)
		if w == 0 {
			if a.T.Sort == SInt {
				return a, nil // mathematical integers are already "wide"
			}
			return Val{}, fmt.Errorf("wide() needs an integer")
		}
		op := "zero_extend"
		if isSigned(a) || e.Name == "swide" {
			op = "sign_extend"
		}
		return Val{T: App(fmt.Sprintf("(_ %s %d)", op, 128-w), SBV(128), a.T)}, nil
	case "int":
		a, err := env.eval(e.Args[0])
		if err != nil {
			return Val{}, err
		}
		return Val{T: x.toInt(a.T, a.GoT)}, nil
	case "isNaN":
		a, err := env.eval(e.Args[0])
		if err != nil {
			return Val{}, err
		}
		return tv(App("fp.isNaN", SBool, a.T), boolT), nil
	case "isInf":
		a, err := env.eval(e.Args[0])
		if err != nil {
			return Val{}, err
		}
		return tv(App("fp.isInfinite", SBool, a.T), boolT), nil
	case "truncU64":
		a, err := env.eval(e.Args[0])
		if err != nil {
			return Val{}, err
		}
		return tv(App("(_ fp.to_ubv 64)", SBV(64), Lit("RTZ", SRM), a.T), types.Typ[types.Uint64]), nil
	case "floatU64":
		a, err := env.eval(e.Args[0])
		if err != nil {
			return Val{}, err
		}
		return tv(App("(_ to_fp_unsigned 11 53)", SFP64, Lit("RNE", SRM), a.T), types.Typ[types.Float64]), nil
	case "fresh":
		a, err := env.eval(e.Args[0])
		if err != nil {
			return Val{}, err
		}
		if env.entryAlloc == nil {
			return Val{}, fmt.Errorf("fresh() outside a postcondition")
		}
		r := a.T
		if r.Sort == SSlice {
			r = slArr(r)
		} else if r.Sort == SIface {
			r = ifVal(r)
		}
		return tv(ILe(env.entryAlloc, r), boolT), nil
	case "tag":
		a, err := env.eval(e.Args[0])
		if err != nil {
			return Val{}, err
		}
		return Val{T: ifTag(a.T)}, nil
	case "ref":
		// ref(x): the object an interface value points to (its value part), or a pointer itself
		a, err := env.eval(e.Args[0])
		if err != nil {
			return Val{}, err
		}
		if a.T != nil && a.T.Sort == SIface {
			return Val{T: ifVal(a.T)}, nil
		}
		return Val{T: a.T}, nil
	case "allocated":
		a, err := env.eval(e.Args[0])
		if err != nil {
			return Val{}, err
		}
		al := env.alloc
		if al == nil {
			al = env.s.alloc
		}
		r := a.T
		if r.Sort == SSlice {
			r = slArr(r)
		} else if r.Sort == SIface {
			r = ifVal(r)
		}
		return tv(ILt(r, al), boolT), nil
	case "isobj":
		// isobj(p, T): p points to an object allocated with (named struct) type T
		if err := argN(2); err != nil {
			return Val{}, err
		}
		a, err := env.eval(e.Args[0])
		if err != nil {
			return Val{}, err
		}
		t, err := env.resolveType(strings.Trim(e.Args[1].String(), "()"))
		if err != nil {
			return Val{}, err
		}
		x.eng.reg.AddFun("rtype", []string{SInt}, SInt)
		return tv(Eq(App("rtype", SInt, a.T), IntLit(int64(x.eng.tagOf(t)))), boolT), nil
	case "heapof":
		// heapof(Type.field): the current value of a whole heap component (an SMT array indexed by reference)
		if err := argN(1); err != nil {
			return Val{}, err
		}
		key := x.heapKeyFromTextPkg(e.Args[0], env.fnPkg)
		srt, ok := x.heapSorts[key]
		if !ok {
			// resolve the sort from the declared field type
			t, err := env.resolveType(e.Args[0].Args[0].Name)
			if err != nil {
				return Val{}, err
			}
			st, isS := t.Underlying().(*types.Struct)
			if !isS {
				return Val{}, fmt.Errorf("heapof: %s is not a struct", t)
			}
			for i := 0; i < st.NumFields(); i++ {
				if st.Field(i).Name() == e.Args[0].Name {
					srt = SArr(SInt, x.sortOf(st.Field(i).Type()))
				}
			}
			if srt == "" {
				return Val{}, fmt.Errorf("heapof: no such field")
			}
		}
		return Val{T: env.heapGet(key, srt)}, nil
	case "nilIface":
		return Val{T: nilIface}, nil
	case "iface":
		// the interface value obtained by converting a Go-typed value (boxing)
		a, err := env.eval(e.Args[0])
		if err != nil {
			return Val{}, err
		}
		if a.GoT == nil {
			return Val{}, fmt.Errorf("iface() needs a Go-typed value")
		}
		t, err := x.makeIface(env.s, a, a.GoT)
		if err != nil {
			return Val{}, err
		}
		return Val{T: t}, nil
	case "store":
		if err := argN(3); err != nil {
			return Val{}, err
		}
		a, err := env.eval(e.Args[0])
		if err != nil {
			return Val{}, err
		}
		i, err := env.eval(e.Args[1])
		if err != nil {
			return Val{}, err
		}
		v, err := env.eval(e.Args[2])
		if err != nil {
			return Val{}, err
		}
		if !isArr(a.T.Sort) {
			return Val{}, fmt.Errorf("store() needs an array value")
		}
		return Val{T: Store(a.T, i.T, v.T)}, nil
	case "arrval":
		// the backing array of a slice as an SMT array value (index it with off(s)+i)
		a, err := env.eval(e.Args[0])
		if err != nil {
			return Val{}, err
		}
		sl, ok := a.GoT.Underlying().(*types.Slice)
		if !ok {
			return Val{}, fmt.Errorf("arrval() needs a slice")
		}
		h := env.heapGet(x.elemKey(sl.Elem()), SArr(SInt, SArr(SInt, x.sortOf(sl.Elem()))))
		return Val{T: Select(h, slArr(a.T))}, nil
	case "arr", "off":
		a, err := env.eval(e.Args[0])
		if err != nil {
			return Val{}, err
		}
		if e.Name == "arr" {
			return Val{T: slArr(a.T)}, nil
		}
		return Val{T: slOff(a.T)}, nil
	case "str":
		// str(b): the byte content of slice b as a sequence value (uninterpreted view, axiomatised on demand)
		a, err := env.eval(e.Args[0])
		if err != nil {
			return Val{}, err
		}
		return env.seqOfSlice(a)
	case "held":
		a, err := env.eval(e.Args[0])
		if err != nil {
			return Val{}, err
		}
		_ = a
		return Val{}, fmt.Errorf("held() not available here")
	}
	// spec functions
	if sf, ok := x.eng.cs.Specs[e.Name]; ok {
		var args []Val
		for _, a := range e.Args {
			v, err := env.eval(a)
			if err != nil {
				return Val{}, err
			}
			args = append(args, v)
		}
		return env.applySpec(sf, args)
	}
	return Val{}, fmt.Errorf("unknown function %q", e.Name)
}

// seqOfSlice: content of a []byte slice as a Str value, defined through an uninterpreted
// function of (backing array value, offset, length) with element axioms.
func (env *SpecEnv) seqOfSlice(a Val) (Val, error) {
	x := env.x
	sl, ok := a.GoT.Underlying().(*types.Slice)
	if !ok {
		return Val{}, fmt.Errorf("str() needs a slice")
	}
	es := x.sortOf(sl.Elem())
	if es != SInt {
		return Val{}, fmt.Errorf("str() needs a byte slice")
	}
	x.eng.reg.AddFun("seq$of", []string{SArr(SInt, SInt), SInt, SInt}, SStr)
	h := env.heapGet(x.elemKey(sl.Elem()), SArr(SInt, SArr(SInt, es)))
	t := App("seq$of", SStr, Select(h, slArr(a.T)), slOff(a.T), slLen(a.T))
	return tv(t, types.Typ[types.String]), nil
}

func (env *SpecEnv) applySpec(sf *SpecFun, args []Val) (Val, error) {
	x := env.x
	if len(args) != len(sf.Params) {
		return Val{}, fmt.Errorf("%s expects %d arguments", sf.Name, len(sf.Params))
	}
	retSort, retT, err := env.parseSort(sf.Ret)
	if err != nil {
		return Val{}, err
	}
	if sf.Pred {
		retT = types.Typ[types.Bool]
	}
	if sf.Body != nil && !sf.Rec && !sf.Opaque {
		// macro expansion in the current environment (may read the heap)
		sub := env.sub()
		for i, p := range sf.Params {
			v := args[i]
			if v.GoT == nil || v.GoT == untypedInt {
				if _, gt, err := env.parseSort(p.Type); err == nil && gt != nil {
					v.GoT = gt
				}
			}
			sub.bound[p.Name] = v
		}
		// macro bodies must not capture caller-local names
		sub.names = nil
		sub.fr = nil
		if sf.Pkg != "" {
			// type and global names in the body resolve in the declaring package
			if p := x.eng.pkgs[sf.Pkg]; p != nil && p.Pkg != nil {
				sub.fnPkg = p.Pkg
			}
		}
		r, err := sub.eval(sf.Body)
		if err != nil {
			return Val{}, fmt.Errorf("in %s: %v", sf.Name, err)
		}
		if r.GoT == nil {
			r.GoT = retT
		}
		return r, nil
	}
	// uninterpreted symbol (recursive: ground definitional instances are added per query)
	var sorts []string
	var ts []*Term
	for i, p := range sf.Params {
		srt, _, err := env.parseSort(p.Type)
		if err != nil {
			return Val{}, err
		}
		a := args[i]
		if a.T.Sort != srt {
			if n, ok := a.T.intLitVal(); ok && bvWidth(srt) > 0 {
				a.T = BVLit(n, bvWidth(srt))
			} else {
				return Val{}, fmt.Errorf("%s: argument %d has sort %s, want %s", sf.Name, i, a.T.Sort, srt)
			}
		}
		sorts = append(sorts, srt)
		ts = append(ts, a.T)
	}
	x.eng.reg.AddFun("sp$"+sf.Name, sorts, retSort)
	if sf.Body != nil {
		x.eng.ensureSpecDef(sf, env)
	}
	return tv(App("sp$"+sf.Name, retSort, ts...), retT), nil
}

// assignLocs evaluates one assigns item to heap locations.
func (env *SpecEnv) assignLocs(e *Expr) ([]assignLoc, error) {
	x := env.x
	switch {
	case e.Kind == eIdent && e.Name == "everything":
		return []assignLoc{{key: "*"}}, nil
	case e.Kind == eCall && e.Name == "elems" && len(e.Args) == 1:
		a, err := env.eval(e.Args[0])
		if err != nil {
			return nil, err
		}
		sl, ok := a.GoT.Underlying().(*types.Slice)
		if !ok {
			return nil, fmt.Errorf("elems() needs a slice")
		}
		return []assignLoc{{key: x.elemKey(sl.Elem()), ref: slArr(a.T), text: e.String(), sort: SArr(SInt, SArr(SInt, x.sortOf(sl.Elem())))}}, nil
	case e.Kind == eCall && e.Name == "mapof" && len(e.Args) == 1:
		a, err := env.eval(e.Args[0])
		if err != nil {
			return nil, err
		}
		mt, ok := a.GoT.Underlying().(*types.Map)
		if !ok {
			return nil, fmt.Errorf("mapof() needs a map")
		}
		hk, vk, lk := x.mapKeys(mt)
		ks := x.sortOf(mt.Key())
		return []assignLoc{
			{key: hk, ref: a.T, text: e.String(), sort: SArr(SInt, SArr(ks, SBool))},
			{key: vk, ref: a.T, text: e.String(), sort: SArr(SInt, SArr(ks, x.sortOf(mt.Elem())))},
			{key: lk, ref: a.T, text: e.String(), sort: SArr(SInt, SInt)}}, nil
	case e.Kind == eCall && e.Name == "heap" && len(e.Args) == 1:
		return []assignLoc{{key: x.heapKeyFromText(e.Args[0]), text: e.String()}}, nil
	case e.Kind == eCall && e.Name == "ghost" && len(e.Args) == 1 && e.Args[0].Kind == eIdent:
		gs, ok := x.eng.cs.Ghost[e.Args[0].Name]
		if !ok {
			return nil, fmt.Errorf("unknown ghost heap %s", e.Args[0].Name)
		}
		srt, _, err := env.parseSort(gs)
		if err != nil {
			return nil, err
		}
		return []assignLoc{{key: "X$" + e.Args[0].Name, text: e.String(), sort: SArr(SInt, srt)}}, nil
	case e.Kind == eCall && e.Name == "global" && len(e.Args) == 1:
		if env.fnPkg != nil {
			return []assignLoc{{key: "G$" + cleanName(env.fnPkg.Name()+"."+e.Args[0].Name), text: e.String()}}, nil
		}
	case e.Kind == eIndex && e.Args[0].Kind == eIdent && x.eng.cs.Ghost[e.Args[0].Name] != "":
		srt, _, err := env.parseSort(x.eng.cs.Ghost[e.Args[0].Name])
		if err != nil {
			return nil, err
		}
		r, err := env.eval(e.Args[1])
		if err != nil {
			return nil, err
		}
		return []assignLoc{{key: "X$" + e.Args[0].Name, ref: r.T, text: e.String(), sort: SArr(SInt, srt)}}, nil
	case e.Kind == eUn && e.Op == "*":
		a, err := env.eval(e.Args[0])
		if err != nil {
			return nil, err
		}
		pt, ok := a.GoT.Underlying().(*types.Pointer)
		if !ok {
			return nil, fmt.Errorf("assigns %s: not a pointer", e)
		}
		var out []assignLoc
		for _, k := range x.cellKeys(pt.Elem()) {
			out = append(out, assignLoc{key: k, ref: a.T, text: e.String(), sort: x.cellSortOf(k, pt.Elem())})
		}
		return out, nil
	case e.Kind == eField:
		base, err := env.eval(e.Args[0])
		if err != nil {
			return nil, err
		}
		bt := base.GoT
		p, ok := bt.Underlying().(*types.Pointer)
		if !ok {
			return nil, fmt.Errorf("assigns %s: base is not a pointer", e)
		}
		st, ok := p.Elem().Underlying().(*types.Struct)
		if !ok {
			return nil, fmt.Errorf("assigns %s: not a struct", e)
		}
		var out []assignLoc
		for i := 0; i < st.NumFields(); i++ {
			if st.Field(i).Name() == e.Name || e.Name == "$all" {
				out = append(out, assignLoc{key: x.fieldKey(p.Elem(), st, i), ref: base.T, text: e.String(), sort: SArr(SInt, x.sortOf(st.Field(i).Type()))})
			}
		}
		if len(out) == 0 {
			return nil, fmt.Errorf("assigns %s: no such field", e)
		}
		return out, nil
	}
	return nil, fmt.Errorf("unsupported assigns item %s", e)
}
