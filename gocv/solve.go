package main

// Solver portfolio: one SMT-LIB2 file per query, raced over z3-new / cvc5 / z3.

import (
	"bytes"
	"context"
	"fmt"
	"os"
	"os/exec"
	"path/filepath"
	"strings"
	"sync"
	"time"
)

type FunDecl struct {
	Name string
	Args []string
	Ret  string
}

// Registry of sorts, datatypes and uninterpreted functions shared by all queries of a run.
type Registry struct {
	mu        sync.Mutex
	sortDecls []string        // in dependency order
	sortSeen  map[string]bool // by sort name
	funs      map[string]FunDecl
	axioms    map[string][]namedAxiom // global axioms keyed by function symbol that triggers inclusion
}

type namedAxiom struct {
	name  string
	t     *Term
	order int // lemmas: 1-based declaration index; plain axioms: 0
}

func NewRegistry() *Registry {
	r := &Registry{sortSeen: map[string]bool{}, funs: map[string]FunDecl{}, axioms: map[string][]namedAxiom{}}
	r.AddSortDecl("Str", "(define-sort Str () (Seq Int))")
	r.AddSortDecl(SSlice, "(declare-datatypes ((Slice 0)) (((mk-slice (s.arr Int) (s.off Int) (s.len Int) (s.cap Int)))))")
	r.AddSortDecl(SIface, "(declare-datatypes ((Iface 0)) (((mk-iface (i.tag Int) (i.val Int)))))")
	return r
}

func (r *Registry) AddSortDecl(name, decl string) {
	r.mu.Lock()
	defer r.mu.Unlock()
	if r.sortSeen[name] {
		return
	}
	r.sortSeen[name] = true
	r.sortDecls = append(r.sortDecls, decl)
}

func (r *Registry) HasSort(name string) bool {
	r.mu.Lock()
	defer r.mu.Unlock()
	return r.sortSeen[name]
}

func (r *Registry) AddFun(name string, args []string, ret string) {
	r.mu.Lock()
	defer r.mu.Unlock()
	if old, ok := r.funs[name]; ok {
		if old.Ret != ret || strings.Join(old.Args, ",") != strings.Join(args, ",") {
			panic(fmt.Sprintf("function %s re-declared with different signature: %v->%s vs %v->%s", name, old.Args, old.Ret, args, ret))
		}
		return
	}
	r.funs[name] = FunDecl{name, args, ret}
}

func (r *Registry) Fun(name string) (FunDecl, bool) {
	r.mu.Lock()
	defer r.mu.Unlock()
	f, ok := r.funs[name]
	return f, ok
}

// AddAxiom registers an axiom that is included in every query mentioning function symbol fn.
func (r *Registry) AddAxiom(fn, name string, ax *Term, order int) {
	r.mu.Lock()
	defer r.mu.Unlock()
	r.axioms[fn] = append(r.axioms[fn], namedAxiom{name, ax, order})
}

type Query struct {
	Name    string
	Asserts []*Term
	Goal    *Term // to be proved under Asserts; nil means "check satisfiability of Asserts" (cover)
	// MaxAxiomOrder > 0: only axioms/lemmas declared before this lemma index may be used (no circularity)
	MaxAxiomOrder int
}

type Result struct {
	Status  string // "unsat", "sat", "unknown", "timeout", "error"
	Solver  string
	Secs    float64
	Model   map[string]string
	Raw     string
	File    string
	Decided []string // solvers that gave a definite answer (thorough)
}

// Script renders the SMT-LIB2 text of a query.
func (r *Registry) Script(q *Query) string {
	vars := map[string]string{}
	apps := map[string]*Term{}
	all := append([]*Term{}, q.Asserts...)
	if q.Goal != nil {
		all = append(all, q.Goal)
	}
	defs := unfoldRecDefs(all)
	all = append(all, defs...)
	for _, a := range all {
		a.collect(vars, apps, map[string]bool{})
	}
	// include axioms for used function symbols (to a fixpoint)
	r.mu.Lock()
	var extra []*Term
	seenAx := map[string]bool{}
	usedAx := map[string]bool{}
	for changed := true; changed; {
		changed = false
		for fn := range apps {
			if seenAx[fn] {
				continue
			}
			seenAx[fn] = true
			for _, ax := range r.axioms[fn] {
				if q.MaxAxiomOrder < 0 || (q.MaxAxiomOrder > 0 && ax.order >= q.MaxAxiomOrder) {
					continue
				}
				if usedAx[ax.name] {
					continue
				}
				usedAx[ax.name] = true
				extra = append(extra, ax.t)
				ax.t.collect(vars, apps, map[string]bool{})
				changed = true
			}
		}
	}
	funs := map[string]FunDecl{}
	for fn := range apps {
		if f, ok := r.funs[fn]; ok {
			funs[fn] = f
		}
	}
	sortDecls := append([]string{}, r.sortDecls...)
	r.mu.Unlock()

	var sb strings.Builder
	sb.WriteString("; " + q.Name + "\n")
	sb.WriteString("(set-option :produce-models true)\n(set-logic ALL)\n")
	for _, d := range sortDecls {
		sb.WriteString(d + "\n")
	}
	for _, fn := range sortedKeys(funs) {
		f := funs[fn]
		sb.WriteString("(declare-fun " + f.Name + " (" + strings.Join(f.Args, " ") + ") " + f.Ret + ")\n")
	}
	for _, v := range sortedKeys(vars) {
		sb.WriteString("(declare-const " + v + " " + vars[v] + ")\n")
	}
	for _, a := range extra {
		sb.WriteString("(assert " + a.String() + ")\n")
	}
	for _, a := range defs {
		sb.WriteString("(assert " + a.String() + ")\n")
	}
	for _, a := range q.Asserts {
		if a.isTrue() {
			continue
		}
		sb.WriteString("(assert " + a.String() + ")\n")
	}
	if q.Goal != nil {
		sb.WriteString("(assert (not " + q.Goal.String() + "))\n")
	}
	sb.WriteString("(check-sat)\n(get-model)\n")
	return sb.String()
}

type solverSpec struct {
	name string
	args func(file string, secs int) []string
}

var solvers = []solverSpec{
	{"z3-new", func(f string, s int) []string { return []string{"z3-new", fmt.Sprintf("-T:%d", s), f} }},
	{"cvc5", func(f string, s int) []string {
		return []string{"cvc5", "--strings-exp", fmt.Sprintf("--tlimit=%d", s*1000), f}
	}},
	{"z3", func(f string, s int) []string { return []string{"z3", fmt.Sprintf("-T:%d", s), f} }},
}

func runOne(ctx context.Context, sp solverSpec, file string, secs int) Result {
	t0 := time.Now()
	argv := sp.args(file, secs)
	cctx, cancel := context.WithTimeout(ctx, time.Duration(secs+2)*time.Second)
	defer cancel()
	cmd := exec.CommandContext(cctx, argv[0], argv[1:]...)
	var out bytes.Buffer
	cmd.Stdout = &out
	cmd.Stderr = &out
	_ = cmd.Run()
	res := Result{Solver: sp.name, Secs: time.Since(t0).Seconds(), Raw: out.String(), File: file}
	first := ""
	for _, ln := range strings.Split(out.String(), "\n") {
		ln = strings.TrimSpace(ln)
		if ln == "" || strings.HasPrefix(ln, "(error") && strings.Contains(ln, "set-option") {
			continue
		}
		if ln == "sat" || ln == "unsat" || ln == "unknown" || ln == "timeout" {
			first = ln
			break
		}
		if strings.HasPrefix(ln, "(error") || strings.Contains(ln, "rror") {
			first = "error"
			break
		}
	}
	switch first {
	case "sat", "unsat", "unknown":
		res.Status = first
	case "timeout", "":
		if cctx.Err() != nil || first == "timeout" {
			res.Status = "timeout"
		} else {
			res.Status = "error"
		}
	default:
		res.Status = "error"
	}
	if res.Status == "sat" {
		res.Model = parseModel(out.String())
	}
	return res
}

// Solve decides one query. stage 1: z3-new alone with a short budget; stage 2: race all three.
// second=true additionally demands agreement of a second back end (thorough tier).
func (r *Registry) Solve(q *Query, dir string, timeout int, second bool) Result {
	script := r.Script(q)
	file := filepath.Join(dir, fmt.Sprintf("%s_%08x.smt2", sanitize(q.Name), hashStr(q.Name)&0xffffffff))
	if err := os.WriteFile(file, []byte(script), 0o644); err != nil {
		return Result{Status: "error", Raw: err.Error()}
	}
	t0 := time.Now()
	quick := 2
	if timeout < quick {
		quick = timeout
	}
	res := runOne(context.Background(), solvers[0], file, quick)
	if res.Status != "sat" && res.Status != "unsat" {
		res = race(file, timeout, nil)
	}
	res.Decided = []string{}
	if res.Status == "sat" || res.Status == "unsat" {
		res.Decided = append(res.Decided, res.Solver)
	}
	if second && (res.Status == "sat" || res.Status == "unsat") {
		r2 := race(file, timeout, map[string]bool{res.Solver: true})
		if r2.Status == "sat" || r2.Status == "unsat" {
			res.Decided = append(res.Decided, r2.Solver)
			if r2.Status != res.Status {
				res.Raw = fmt.Sprintf("SOLVER DISAGREEMENT: %s=%s %s=%s\n%s", res.Solver, res.Status, r2.Solver, r2.Status, res.Raw)
				res.Status = "error"
			}
		}
	}
	res.Secs = time.Since(t0).Seconds()
	res.File = file
	return res
}

func race(file string, timeout int, skip map[string]bool) Result {
	ctx, cancel := context.WithCancel(context.Background())
	defer cancel()
	ch := make(chan Result, len(solvers))
	n := 0
	for _, sp := range solvers {
		if skip[sp.name] {
			continue
		}
		n++
		go func(sp solverSpec) { ch <- runOne(ctx, sp, file, timeout) }(sp)
	}
	var last Result
	last.Status = "unknown"
	for i := 0; i < n; i++ {
		res := <-ch
		if res.Status == "sat" || res.Status == "unsat" {
			return res
		}
		if last.Raw == "" || res.Status == "unknown" {
			prev := last.Raw
			last = res
			last.Raw = prev + "\n[" + res.Solver + "] " + res.Status + ": " + firstLines(res.Raw, 3)
		} else {
			last.Raw += "\n[" + res.Solver + "] " + res.Status + ": " + firstLines(res.Raw, 3)
		}
	}
	if last.Status == "error" {
		last.Status = "unknown"
	}
	return last
}

func firstLines(s string, n int) string {
	ls := strings.Split(strings.TrimSpace(s), "\n")
	if len(ls) > n {
		ls = ls[:n]
	}
	return strings.Join(ls, " | ")
}

func sanitize(s string) string {
	var sb strings.Builder
	for _, c := range s {
		switch {
		case c >= 'a' && c <= 'z', c >= 'A' && c <= 'Z', c >= '0' && c <= '9', c == '.', c == '-', c == '_':
			sb.WriteRune(c)
		default:
			sb.WriteRune('_')
		}
	}
	out := sb.String()
	if len(out) > 180 {
		out = out[:180]
	}
	return out
}

// ---- model parsing ----

type sexp struct {
	atom string
	list []*sexp
	isL  bool
}

func (s *sexp) String() string {
	if !s.isL {
		return s.atom
	}
	parts := make([]string, len(s.list))
	for i, x := range s.list {
		parts[i] = x.String()
	}
	return "(" + strings.Join(parts, " ") + ")"
}

func parseSexps(src string) []*sexp {
	var out []*sexp
	pos := 0
	for {
		s, np := parseSexp(src, pos)
		if s == nil {
			break
		}
		out = append(out, s)
		pos = np
	}
	return out
}

func parseSexp(src string, pos int) (*sexp, int) {
	n := len(src)
	for pos < n {
		c := src[pos]
		if c == ' ' || c == '\n' || c == '\t' || c == '\r' {
			pos++
			continue
		}
		if c == ';' {
			for pos < n && src[pos] != '\n' {
				pos++
			}
			continue
		}
		break
	}
	if pos >= n {
		return nil, pos
	}
	if src[pos] == ')' {
		return nil, pos
	}
	if src[pos] == '(' {
		pos++
		s := &sexp{isL: true}
		for {
			c, np := parseSexp(src, pos)
			if c == nil {
				pos = np
				break
			}
			s.list = append(s.list, c)
			pos = np
		}
		// skip to ')'
		for pos < n && src[pos] != ')' {
			pos++
		}
		return s, pos + 1
	}
	start := pos
	if src[pos] == '"' {
		pos++
		for pos < n && src[pos] != '"' {
			pos++
		}
		pos++
		return &sexp{atom: src[start:pos]}, pos
	}
	if src[pos] == '|' {
		pos++
		for pos < n && src[pos] != '|' {
			pos++
		}
		pos++
		return &sexp{atom: src[start:pos]}, pos
	}
	for pos < n {
		c := src[pos]
		if c == ' ' || c == '\n' || c == '\t' || c == '\r' || c == '(' || c == ')' {
			break
		}
		pos++
	}
	return &sexp{atom: src[start:pos]}, pos
}

// parseModel extracts zero-argument define-funs from a (get-model) answer.
func parseModel(out string) map[string]string {
	m := map[string]string{}
	idx := strings.Index(out, "\n")
	if idx < 0 {
		return m
	}
	body := out[idx+1:]
	for _, top := range parseSexps(body) {
		items := []*sexp{top}
		if top.isL && (len(top.list) == 0 || top.list[0].isL || top.list[0].atom == "model") {
			items = top.list
		}
		for _, it := range items {
			if !it.isL || len(it.list) < 5 || it.list[0].atom != "define-fun" {
				continue
			}
			if it.list[2].isL && len(it.list[2].list) == 0 {
				m[it.list[1].atom] = it.list[4].String()
			}
		}
	}
	return m
}

// SolveQuick: satisfiability of the assertions with one fast solver and a 1 s budget.
func (r *Registry) SolveQuick(q *Query, dir string) string {
	script := r.Script(q)
	file := filepath.Join(dir, sanitize(q.Name)+".smt2")
	if err := os.WriteFile(file, []byte(script), 0o644); err != nil {
		return "error"
	}
	res := runOne(context.Background(), solvers[0], file, 1)
	os.Remove(file)
	return res.Status
}
