package main

// Object invariants (own-field type invariants), feasibility pruning, opaque-struct fields,
// intrinsics for decoders that fill a pointee (cbor), termination measures.

import (
	"fmt"
	"go/token"
	"go/types"
	"regexp"
	"sort"
	"strings"

	"golang.org/x/tools/go/ssa"
)

type freshObj struct {
	typ     types.Type // named struct type
	ref     *Term
	escaped bool
}

// noteEscape marks objects under construction whose reference flows into v.
func (s *State) noteEscape(v Val) {
	if len(s.fresh) == 0 {
		return
	}
	var txt string
	if v.T != nil {
		txt = v.T.String()
	}
	for _, e := range v.Tup {
		s.noteEscape(e)
	}
	if txt == "" {
		return
	}
	for i := range s.fresh {
		if !s.fresh[i].escaped && strings.Contains(txt, s.fresh[i].ref.Op) {
			s.fresh[i].escaped = true
		}
	}
}

// ---------- type invariants ----------

func (e *Engine) typeInvClauses(t types.Type) []*Clause {
	n, ok := t.(*types.Named)
	if !ok || n.Obj().Pkg() == nil {
		return nil
	}
	return e.cs.TypeInv[n.Obj().Pkg().Path()+"."+n.Obj().Name()]
}

// invTerm evaluates the invariant clauses of struct type t at object ref in the current heap.
func (x *Exec) invTerm(s *State, t types.Type, ref *Term) (*Term, error) {
	cls := x.eng.typeInvClauses(t)
	if len(cls) == 0 {
		return TTrue, nil
	}
	n := t.(*types.Named)
	env := &SpecEnv{x: x, s: s, names: map[string]Val{"self": {T: ref, GoT: types.NewPointer(t)}}, fnPkg: n.Obj().Pkg()}
	var cs []*Term
	for _, c := range cls {
		tm, err := env.boolExpr(c.E)
		if err != nil {
			return nil, fmt.Errorf("typeinv %s %s: %v", n.Obj().Name(), c.Name, err)
		}
		cs = append(cs, tm)
	}
	return And(cs...), nil
}

// notFreshHere: ref is none of the objects of type t allocated by the current activation.
func (x *Exec) notFreshHere(s *State, t types.Type, ref *Term) *Term {
	var cs []*Term
	for _, f := range s.fresh {
		if types.Identical(f.typ, t) {
			cs = append(cs, Not(Eq(ref, f.ref)))
		}
	}
	return And(cs...)
}

// assumeTyped: typing assumptions for a value obtained from the heap, a parameter or a call,
// including declared object invariants of the objects it points to.
func (x *Exec) assumeTyped(s *State, v *Term, t types.Type) {
	s.assume(x.eng.typeInv(v, t, x.mode, s.alloc))
	x.assumeInv(s, v, t, TTrue)
}

func (x *Exec) assumeInv(s *State, v *Term, t types.Type, guard *Term) {
	if len(x.eng.cs.TypeInv) == 0 || t == nil {
		return
	}
	switch u := t.Underlying().(type) {
	case *types.Pointer:
		if len(x.eng.typeInvClauses(u.Elem())) == 0 {
			return
		}
		inv, err := x.invTerm(s, u.Elem(), v)
		if err != nil {
			x.abort(err.Error())
			return
		}
		s.assume(Implies(And(guard, ILt(IntLit(0), v), x.notFreshHere(s, u.Elem(), v)), inv))
	case *types.Interface:
		if !x.eng.closedIface(t) {
			return
		}
		for _, impl := range x.eng.implementers(t) {
			p, ok := impl.(*types.Pointer)
			if !ok || len(x.eng.typeInvClauses(p.Elem())) == 0 {
				continue
			}
			inv, err := x.invTerm(s, p.Elem(), ifVal(v))
			if err != nil {
				x.abort(err.Error())
				return
			}
			s.assume(Implies(And(guard, Eq(ifTag(v), IntLit(int64(x.eng.tagOf(impl)))), x.notFreshHere(s, p.Elem(), ifVal(v))), inv))
		}
	}
}

// checkInvAfterStore: a store into a field of an object whose type has an invariant.
func (x *Exec) checkInvAfterStore(s *State, t types.Type, ref *Term, site string) {
	if len(x.eng.typeInvClauses(t)) == 0 {
		return
	}
	for _, f := range s.fresh {
		if types.Identical(f.typ, t) && f.ref.String() == ref.String() {
			return // still under construction; checked at return
		}
	}
	inv, err := x.invTerm(s, t, ref)
	if err != nil {
		x.abort(err.Error())
		return
	}
	n := t.(*types.Named)
	x.emit(s, "typeinv", "typeinv:"+n.Obj().Name()+"@"+site, Implies(x.notFreshHere(s, t, ref), inv), "object invariant after field store")
}

// checkFreshInvs: objects allocated by this activation must satisfy their invariant on return.
func (x *Exec) checkFreshInvs(s *State) {
	seen := map[string]bool{}
	for _, f := range s.fresh {
		if !f.escaped {
			continue
		}
		inv, err := x.invTerm(s, f.typ, f.ref)
		if err != nil {
			x.abort(err.Error())
			return
		}
		n := f.typ.(*types.Named)
		name := "typeinv:" + n.Obj().Name() + "@return"
		_ = seen
		x.emit(s, "typeinv", name, inv, "object invariant of a newly allocated object at return")
	}
}

// ---------- feasibility pruning ----------

func (x *Exec) feasible(s *State, cond *Term) bool {
	if cond.isTrue() {
		return true
	}
	if cond.isFalse() {
		return false
	}
	x.eng.feasN++
	q := &Query{Name: fmt.Sprintf("feas_%d", x.eng.feasN), Asserts: append(s.assertList(), cond)}
	res := x.eng.reg.SolveQuick(q, x.eng.workDir)
	return res != "unsat"
}

// ---------- intrinsics that fill a pointee with arbitrary data ----------

func pointeeOfIfaceArg(in ssa.Instruction) types.Type {
	ci, ok := in.(ssa.CallInstruction)
	if !ok {
		return nil
	}
	for _, a := range ci.Common().Args {
		if mi, ok := a.(*ssa.MakeInterface); ok {
			if p, ok := mi.X.Type().Underlying().(*types.Pointer); ok {
				if _, isS := p.Elem().Underlying().(*types.Struct); isS {
					return p.Elem()
				}
			}
		}
	}
	return nil
}

// havocPointee: the decoder writes arbitrary well-typed values into every field of *ref.
func (x *Exec) havocPointee(s *State, t types.Type, ref *Term) error {
	st, ok := structOf(t)
	if !ok || x.eng.opaqueStruct(t) {
		return fmt.Errorf("cannot havoc pointee of type %s", t)
	}
	na := Var(x.eng.fresh("alloc"), SInt)
	s.assume(ILe(s.alloc, na))
	s.alloc = na
	for i := 0; i < st.NumFields(); i++ {
		ft := st.Field(i).Type()
		v := Var(x.eng.fresh("dec$"+fieldName(st.Field(i), i)), x.sortOf(ft))
		s.assume(x.eng.typeInv(v, ft, x.mode, s.alloc))
		key := x.fieldKey(t, st, i)
		h := x.heapGet(s, key, SArr(SInt, x.sortOf(ft)))
		x.heapSet(s, key, Store(h, ref, v))
	}
	return nil
}

func unmarshalIntrinsic(argIdx int) intrinsic {
	return func(x *Exec, s *State, in ssa.Instruction, f *ssa.Function, args []Val) (Val, error) {
		t := pointeeOfIfaceArg(in)
		if t == nil {
			return Val{}, fmt.Errorf("decoder target is not a pointer to a struct")
		}
		if argIdx >= len(args) {
			return Val{}, fmt.Errorf("bad decoder call")
		}
		ref := ifVal(args[argIdx].T)
		if err := x.havocPointee(s, t, ref); err != nil {
			return Val{}, err
		}
		errT := types.Universe.Lookup("error").Type()
		r := Var(x.eng.fresh("r$Unmarshal$err"), SIface)
		s.assume(x.eng.typeInv(r, errT, x.mode, s.alloc))
		return tv(r, errT), nil
	}
}

func init() {
	intrinsics["github.com/fxamacker/cbor/v2.Unmarshal"] = unmarshalIntrinsic(1)
	intrinsics["(github.com/fxamacker/cbor/v2.DecMode).Unmarshal"] = unmarshalIntrinsic(2)
}

// ---------- termination ----------

// checkDecreases: at a recursive call of the function under verification, the measure evaluated
// on the callee's arguments must be smaller than at entry and bounded below.
func (x *Exec) checkDecreases(s *State, fc *FuncContract, env map[string]Val, site string, f *ssa.Function) {
	if fc.Decreases == nil {
		return
	}
	now := &SpecEnv{x: x, s: s, names: env, fnPkg: pkgOf(f)}
	m1, err := now.eval(fc.Decreases.E)
	if err != nil {
		x.abort("decreases: " + err.Error())
		return
	}
	entry := &SpecEnv{x: x, s: s, names: x.params, heap: x.entryHeap, alloc: x.entryAlloc, fnPkg: pkgOf(f)}
	m0, err := entry.eval(fc.Decreases.E)
	if err != nil {
		x.abort("decreases: " + err.Error())
		return
	}
	x.emit(s, "decreases", "decreases@"+site, And(ILe(IntLit(0), m1.T), ILt(m1.T, m0.T)), "termination measure "+fc.Decreases.Text+" must decrease at the recursive call")
}

var _ = strings.TrimSpace

// ---------- lock discipline ----------

var reHeapVer = regexp.MustCompile(`((?:F|C|G)\$[^ !()]+)![0-9]+`)

// canonID: a lock's identity. Lock-holding fields are assigned once at construction, so the heap
// version from which the lock pointer was read is irrelevant.
func canonID(t *Term) string {
	for i := 0; i < 6 && t.Kind == kVar; i++ {
		d, ok := defOf[t.Op]
		if !ok {
			break
		}
		t = d
	}
	return reHeapVer.ReplaceAllString(t.String(), "$1")
}

// checkGuard: a field declared `guarded T.f by mu` may be read with mu held (R or W) and written
// only with mu held for writing; objects under construction in this activation are exempt.
func (x *Exec) checkGuard(s *State, styp types.Type, st *types.Struct, field int, ref *Term, write bool, site string) {
	if len(x.eng.cs.Guarded) == 0 {
		return
	}
	n, ok := styp.(*types.Named)
	if !ok || n.Obj().Pkg() == nil {
		return
	}
	lockField, ok := x.eng.cs.Guarded[n.Obj().Pkg().Path()+"."+n.Obj().Name()+"."+st.Field(field).Name()]
	if !ok {
		return
	}
	if strings.HasPrefix(ref.Op, "new$") {
		return // object allocated by this activation: not yet shared
	}
	li := -1
	for i := 0; i < st.NumFields(); i++ {
		if st.Field(i).Name() == lockField {
			li = i
		}
	}
	if li < 0 {
		return
	}
	lt := st.Field(li).Type()
	var id string
	if _, isPtr := lt.Underlying().(*types.Pointer); isPtr {
		h := x.heapGet(s, x.fieldKey(styp, st, li), SArr(SInt, x.sortOf(lt)))
		id = canonID(Select(h, ref))
	} else {
		id = fmt.Sprintf("%s.%s", canonID(ref), lockField)
	}
	held := s.locks[id]
	kind := "read"
	okHeld := held == "R" || held == "W"
	if write {
		kind = "write"
		okHeld = held == "W"
	}
	name := fmt.Sprintf("guard:%s.%s:%s@%s", n.Obj().Name(), st.Field(field).Name(), kind, site)
	if okHeld {
		x.emit(s, "lock", name, TTrue, "guarded access")
		return
	}
	x.emit(s, "lock", name, TFalse, fmt.Sprintf("%s of %s.%s without holding %s (held: %q)", kind, n.Obj().Name(), st.Field(field).Name(), lockField, held))
}

// lockIDOfExpr evaluates a lock expression of a `holds` clause.
func (x *Exec) lockIDOfExpr(s *State, e *Expr, names map[string]Val, pkg *types.Package) (string, error) {
	env := &SpecEnv{x: x, s: s, names: names, fnPkg: pkg}
	// a mutex stored by value is addressed as base.field
	if e.Kind == eField {
		base, err := env.eval(e.Args[0])
		if err == nil && base.GoT != nil {
			if p, ok := base.GoT.Underlying().(*types.Pointer); ok {
				if st, ok := p.Elem().Underlying().(*types.Struct); ok {
					for i := 0; i < st.NumFields(); i++ {
						if st.Field(i).Name() == e.Name {
							if _, isPtr := st.Field(i).Type().Underlying().(*types.Pointer); !isPtr {
								return fmt.Sprintf("%s.%s", canonID(base.T), e.Name), nil
							}
						}
					}
				}
			}
		}
	}
	v, err := env.eval(e)
	if err != nil {
		return "", err
	}
	return canonID(v.T), nil
}

// havocGuardedBy gives arbitrary (well-typed) values to the fields that are declared `guarded … by`
// the mutex just acquired, in the object that holds the mutex (mutex stored by value in the struct).
func (x *Exec) havocGuardedBy(s *State, mu Val) {
	if mu.LV == nil || mu.LV.Kind != lvField || mu.LV.Base != nil || mu.LV.ST == nil {
		return
	}
	n, ok := mu.LV.STyp.(*types.Named)
	if !ok || n.Obj().Pkg() == nil {
		return
	}
	if strings.HasPrefix(mu.LV.Ref.Op, "new$") {
		return // not shared yet
	}
	lockName := mu.LV.ST.Field(mu.LV.Field).Name()
	for i := 0; i < mu.LV.ST.NumFields(); i++ {
		f := mu.LV.ST.Field(i)
		if x.eng.cs.Guarded[n.Obj().Pkg().Path()+"."+n.Obj().Name()+"."+f.Name()] != lockName {
			continue
		}
		key := x.fieldKey(mu.LV.STyp, mu.LV.ST, i)
		srt := x.sortOf(f.Type())
		h := x.heapGet(s, key, SArr(SInt, srt))
		nv := Var(x.eng.fresh("relock$"+f.Name()), srt)
		x.assumeTyped(s, nv, f.Type())
		x.heapSet(s, key, Store(h, mu.LV.Ref, nv))
	}
}

// ---------- lock acquisition summaries (self-deadlock detection) ----------

// acqEntry: the function always (on every returning path) acquires the mutex field `field` of the
// object passed as parameter idx (free=false) or captured as free variable idx (free=true).
type acqEntry struct {
	free  bool
	idx   int
	field string
	mode  string
	ptr   bool       // the field holds a *sync.(RW)Mutex (the lock is identified by the pointer value)
	styp  types.Type // struct type holding the field
	fidx  int
	deref bool // the object is reached through one load of the parameter / captured cell
}

var lockFuncs = map[string]string{
	"(*sync.Mutex).Lock": "W", "(*sync.RWMutex).Lock": "W", "(*sync.RWMutex).RLock": "R",
}

// acqSummary computes, by a static scan of the SSA (memoised, recursion-guarded), which mutexes of
// its parameters / captured variables fn certainly acquires: directly, or through a static call
// that passes the same parameter on. Only acquisitions in blocks that dominate every return are
// counted, so a conditional acquisition never produces an entry.
func (e *Engine) acqSummary(fn *ssa.Function) []acqEntry {
	if e.acqMemo == nil {
		e.acqMemo = map[*ssa.Function][]acqEntry{}
		e.acqBusy = map[*ssa.Function]bool{}
	}
	if r, ok := e.acqMemo[fn]; ok {
		return r
	}
	if fn == nil || len(fn.Blocks) == 0 || e.acqBusy[fn] {
		return nil
	}
	e.acqBusy[fn] = true
	defer delete(e.acqBusy, fn)
	var rets []*ssa.BasicBlock
	for _, b := range fn.Blocks {
		if b == fn.Recover {
			continue // reached only through a recovered panic
		}
		if len(b.Instrs) > 0 {
			if _, ok := b.Instrs[len(b.Instrs)-1].(*ssa.Return); ok {
				rets = append(rets, b)
			}
		}
	}
	always := func(b *ssa.BasicBlock) bool {
		if len(rets) == 0 {
			return false
		}
		for _, r := range rets {
			if !b.Dominates(r) {
				return false
			}
		}
		return true
	}
	// origin of a value: parameter / free variable (possibly through one load of a captured cell)
	origin := func(v ssa.Value) (bool, int, bool, bool) {
		deref := false
		if u, ok := v.(*ssa.UnOp); ok && u.Op == token.MUL {
			v, deref = u.X, true
		}
		switch p := v.(type) {
		case *ssa.Parameter:
			for i, q := range fn.Params {
				if q == p {
					return false, i, deref, true
				}
			}
		case *ssa.FreeVar:
			for i, q := range fn.FreeVars {
				if q == p {
					return true, i, deref, true
				}
			}
		}
		return false, 0, false, false
	}
	var out []acqEntry
	seen := map[acqEntry]bool{}
	add := func(a acqEntry) {
		if !seen[a] {
			seen[a] = true
			out = append(out, a)
		}
	}
	for _, b := range fn.Blocks {
		if !always(b) {
			continue
		}
		for _, in := range b.Instrs {
			c, ok := in.(*ssa.Call)
			if !ok {
				continue
			}
			callee := c.Call.StaticCallee()
			if callee == nil {
				continue
			}
			if mode, isLock := lockFuncs[callee.String()]; isLock && len(c.Call.Args) == 1 {
				arg, ptr := c.Call.Args[0], false
				if u, ok := arg.(*ssa.UnOp); ok && u.Op == token.MUL {
					arg, ptr = u.X, true
				}
				if fa, ok := arg.(*ssa.FieldAddr); ok {
					if free, idx, deref, ok := origin(fa.X); ok {
						styp := fa.X.Type().Underlying().(*types.Pointer).Elem()
						st := styp.Underlying().(*types.Struct)
						add(acqEntry{free, idx, fieldName(st.Field(fa.Field), fa.Field), mode, ptr, styp, fa.Field, deref})
					}
				}
				continue
			}
			if len(callee.Blocks) == 0 {
				continue
			}
			for _, a := range e.acqSummary(callee) {
				if a.free || a.deref || a.idx >= len(c.Call.Args) {
					continue
				}
				if free, idx, deref, ok := origin(c.Call.Args[a.idx]); ok {
					add(acqEntry{free, idx, a.field, a.mode, a.ptr, a.styp, a.fidx, deref})
				}
			}
		}
	}
	e.acqMemo[fn] = out
	return out
}

// acqLockID: the identity (as used in State.locks) of the mutex entry a names in object obj.
func (x *Exec) acqLockID(s *State, obj *Term, a acqEntry) string {
	if !a.ptr {
		return canonID(obj) + "." + a.field
	}
	st := a.styp.Underlying().(*types.Struct)
	h := x.heapGet(s, x.fieldKey(a.styp, st, a.fidx), SArr(SInt, SInt))
	return canonID(Select(h, obj))
}

// checkReacquire: a callee that is used by contract (its body is not followed) acquires mutexes of
// its arguments; acquiring one this goroutine already holds is a self-deadlock (sync.Mutex is not
// re-entrant, and a recursive RLock blocks for ever once a writer is queued).
func (x *Exec) checkReacquire(s *State, f *ssa.Function, args []Val, site string) {
	for _, a := range x.eng.acqSummary(f) {
		if a.free || a.deref || a.idx >= len(args) || args[a.idx].T == nil {
			continue
		}
		id := x.acqLockID(s, args[a.idx].T, a)
		if held, ok := s.locks[id]; ok {
			x.emit(s, "lock", "reacquire:"+x.fnName(f)+"@"+site, TFalse, fmt.Sprintf("%s acquires %s (%s), which the caller already holds (%s): self-deadlock", x.fnName(f), id, a.mode, held))
		}
	}
}

// noteSpawn records which mutexes a goroutine started here certainly acquires.
func (x *Exec) noteSpawn(s *State, fv Val, args []Val) {
	if fv.Fn == nil {
		return
	}
	for _, a := range x.eng.acqSummary(fv.Fn) {
		var v Val
		if a.free {
			if a.idx >= len(fv.Bindings) {
				continue
			}
			v = fv.Bindings[a.idx]
		} else {
			if a.idx >= len(args) {
				continue
			}
			v = args[a.idx]
		}
		t := v.T
		if a.deref {
			// captured by reference (or passed as a pointer to the variable): read the cell's current content
			t = nil
			if v.T != nil || v.LV != nil {
				if c, err := x.load(s, x.lvalueOf(v, types.NewPointer(a.styp))); err == nil {
					t = c
				}
			}
		}
		if t == nil {
			continue
		}
		if s.spawned == nil {
			s.spawned = map[string]string{}
		}
		s.spawned[x.acqLockID(s, t, a)] = x.fnName(fv.Fn)
	}
}

// checkAwait: this goroutine blocks (channel receive, select, WaitGroup.Wait) while holding a mutex
// that a goroutine it spawned earlier on this path acquires: if what it waits for is that goroutine,
// neither can proceed once a writer is queued (or at once, for exclusive locks).
func (x *Exec) checkAwait(s *State, site string) {
	if site == "" {
		site = "wait"
	}
	var ids []string
	for id := range s.spawned {
		if _, held := s.locks[id]; held {
			ids = append(ids, id)
		}
	}
	sort.Strings(ids)
	for _, id := range ids {
		x.emit(s, "lock", "awaits-goroutine-under-lock:"+id+"@"+site, TFalse, fmt.Sprintf("blocks while holding %s (%s); the goroutine %s spawned above acquires it: recursive read locking deadlocks once a writer waits", id, s.locks[id], s.spawned[id]))
	}
}
