package main

// Go types -> SMT sorts, zero values, typing assumptions, interface tags, struct datatypes.

import (
	"crypto/sha1"
	"fmt"
	"go/types"
	"math/big"
	"regexp"
	"sort"
	"strings"

	"golang.org/x/tools/go/ssa"
)

type Engine struct {
	acqMemo      map[*ssa.Function][]acqEntry // lock acquisition summaries (extras.go)
	acqBusy      map[*ssa.Function]bool
	globalStores map[*ssa.Global]bool // globals stored to outside package initialisers
	prog         *ssa.Program
	pkgs         map[string]*ssa.Package // by path
	cs           *ContractSet
	reg          *Registry
	modPath      string // module path of the repository under verification
	tags         map[string]int
	tagTypes     []types.Type
	counter      map[string]int
	allNamed     []*types.Named // named types of repository packages (for closed-world interface reasoning)
	warnings     map[string]bool
	implCache    map[string][]types.Type
	workDir      string
	feasN        int
}

func (e *Engine) fresh(prefix string) string {
	e.counter[prefix]++
	return fmt.Sprintf("%s!%d", prefix, e.counter[prefix])
}

func (e *Engine) warn(format string, args ...interface{}) {
	e.warnings[fmt.Sprintf(format, args...)] = true
}

func cleanName(s string) string {
	var sb strings.Builder
	for _, c := range s {
		switch {
		case c >= 'a' && c <= 'z', c >= 'A' && c <= 'Z', c >= '0' && c <= '9', c == '.', c == '_', c == '$':
			sb.WriteRune(c)
		case c == '*':
			sb.WriteString("ptr.")
		case c == '[':
			sb.WriteString("arr.")
		case c == ']', c == ' ':
		case c == '/':
			sb.WriteString(".")
		default:
			sb.WriteRune('_')
		}
	}
	return sb.String()
}

// typeKey is a short, SMT-safe, stable name for a Go type.
var reByte = regexp.MustCompile(`\bbyte\b`)
var reRune = regexp.MustCompile(`\brune\b`)

// canonType: byte/rune are aliases; heap components and interface tags must not depend on the spelling.
func canonType(s string) string {
	return reRune.ReplaceAllString(reByte.ReplaceAllString(s, "uint8"), "int32")
}

func (e *Engine) typeKey(t types.Type) string {
	t = types.Unalias(t)
	s := canonType(types.TypeString(t, func(p *types.Package) string { return p.Name() }))
	k := cleanName(s)
	if len(k) > 60 {
		h := sha1.Sum([]byte(s))
		k = k[:40] + fmt.Sprintf("_%x", h[:4])
	}
	return k
}

func (e *Engine) inRepo(p *types.Package) bool {
	return p != nil && (p.Path() == e.modPath || strings.HasPrefix(p.Path(), e.modPath+"/"))
}

type intInfo struct {
	w      int
	signed bool
}

func intInfoOf(t types.Type) (intInfo, bool) {
	b, ok := t.Underlying().(*types.Basic)
	if !ok {
		return intInfo{}, false
	}
	switch b.Kind() {
	case types.Int, types.Int64, types.UntypedInt, types.UntypedRune:
		return intInfo{64, true}, true
	case types.Int8:
		return intInfo{8, true}, true
	case types.Int16:
		return intInfo{16, true}, true
	case types.Int32:
		return intInfo{32, true}, true
	case types.Uint, types.Uint64, types.Uintptr:
		return intInfo{64, false}, true
	case types.Uint8:
		return intInfo{8, false}, true
	case types.Uint16:
		return intInfo{16, false}, true
	case types.Uint32:
		return intInfo{32, false}, true
	}
	return intInfo{}, false
}

func (ii intInfo) min() *big.Int {
	if !ii.signed {
		return big.NewInt(0)
	}
	return new(big.Int).Neg(new(big.Int).Lsh(big.NewInt(1), uint(ii.w-1)))
}
func (ii intInfo) max() *big.Int {
	if !ii.signed {
		return new(big.Int).Sub(new(big.Int).Lsh(big.NewInt(1), uint(ii.w)), big.NewInt(1))
	}
	return new(big.Int).Sub(new(big.Int).Lsh(big.NewInt(1), uint(ii.w-1)), big.NewInt(1))
}

func isFloat(t types.Type) bool {
	b, ok := t.Underlying().(*types.Basic)
	return ok && (b.Kind() == types.Float64 || b.Kind() == types.Float32 || b.Kind() == types.UntypedFloat)
}

func isString(t types.Type) bool {
	b, ok := t.Underlying().(*types.Basic)
	return ok && (b.Kind() == types.String || b.Kind() == types.UntypedString)
}

func isBool(t types.Type) bool {
	b, ok := t.Underlying().(*types.Basic)
	return ok && (b.Kind() == types.Bool || b.Kind() == types.UntypedBool)
}

// opaqueStruct: struct types outside the repository are opaque values.
// transparentExtern: library structs whose fields the repository reads and writes directly.
var transparentExtern = map[string]bool{"container/ring.Ring": true, "go.uber.org/zap/zaptest/observer.LoggedEntry": true}

func (e *Engine) opaqueStruct(t types.Type) bool {
	if t != nil {
		t = types.Unalias(t)
	}
	if n, ok := t.(*types.Named); ok {
		if _, isS := n.Underlying().(*types.Struct); isS {
			if n.Obj().Pkg() != nil && transparentExtern[n.Obj().Pkg().Path()+"."+n.Obj().Name()] {
				return false
			}
			return !e.inRepo(n.Obj().Pkg())
		}
	}
	return false
}

// sortOf maps a Go type to an SMT sort in the given integer mode ("int" or "bv").
func (e *Engine) sortOf(t types.Type, mode string) string {
	if t == nil {
		return SInt
	}
	if e.opaqueStruct(t) {
		name := "O$" + e.typeKey(t)
		e.reg.AddSortDecl(name, "(declare-sort "+name+" 0)")
		return name
	}
	switch u := t.Underlying().(type) {
	case *types.Basic:
		if u.Kind() == types.Bool || u.Kind() == types.UntypedBool {
			return SBool
		}
		if ii, ok := intInfoOf(u); ok {
			if mode == "bv" {
				return SBV(ii.w)
			}
			return SInt
		}
		switch u.Kind() {
		case types.Float64, types.UntypedFloat:
			return SFP64
		case types.Float32:
			return SFP32
		case types.String, types.UntypedString:
			return SStr
		case types.UnsafePointer, types.UntypedNil:
			return SInt
		}
		return SInt
	case *types.Pointer, *types.Map, *types.Chan, *types.Signature:
		return SInt
	case *types.Slice:
		return SSlice
	case *types.Interface:
		return SIface
	case *types.Array:
		return SArr(SInt, e.sortOf(u.Elem(), mode))
	case *types.Struct:
		return e.structSort(t, u, mode)
	case *types.Tuple:
		return "TUPLE"
	}
	return SInt
}

func (e *Engine) structName(t types.Type) string {
	return e.typeKey(t)
}

func (e *Engine) structSort(t types.Type, st *types.Struct, mode string) string {
	name := "S$" + e.structName(t)
	if mode == "bv" {
		name += "$bv"
	}
	if e.reg.HasSort(name) {
		return name
	}
	if st.NumFields() == 0 {
		e.reg.AddSortDecl(name, fmt.Sprintf("(declare-datatypes ((%s 0)) (((mk$%s))))", name, name))
		return name
	}
	var fs []string
	for i := 0; i < st.NumFields(); i++ {
		f := st.Field(i)
		fs = append(fs, fmt.Sprintf("(%s$%s %s)", name, fieldName(f, i), e.sortOf(f.Type(), mode)))
	}
	e.reg.AddSortDecl(name, fmt.Sprintf("(declare-datatypes ((%s 0)) (((mk$%s %s))))", name, name, strings.Join(fs, " ")))
	return name
}

func fieldName(f *types.Var, i int) string {
	if f.Name() == "_" || f.Name() == "" {
		return fmt.Sprintf("f%d", i)
	}
	return f.Name()
}

// structVal builds a datatype value from field terms.
func (e *Engine) structVal(t types.Type, st *types.Struct, mode string, fields []*Term) *Term {
	s := e.structSort(t, st, mode)
	if len(fields) == 0 {
		return Lit("mk$"+s, s)
	}
	return App("mk$"+s, s, fields...)
}

func (e *Engine) structField(t types.Type, st *types.Struct, mode string, v *Term, i int) *Term {
	s := e.structSort(t, st, mode)
	f := st.Field(i)
	if v.Kind == kApp && v.Op == "mk$"+s {
		return v.Args[i]
	}
	return App(s+"$"+fieldName(f, i), e.sortOf(f.Type(), mode), v)
}

func (e *Engine) structUpdate(t types.Type, st *types.Struct, mode string, v *Term, i int, nv *Term) *Term {
	fields := make([]*Term, st.NumFields())
	for j := range fields {
		if j == i {
			fields[j] = nv
		} else {
			fields[j] = e.structField(t, st, mode, v, j)
		}
	}
	return e.structVal(t, st, mode, fields)
}

// ---- slices / interfaces ----

func mkSlice(arr, off, ln, cp *Term) *Term { return App("mk-slice", SSlice, arr, off, ln, cp) }
func slArr(s *Term) *Term {
	if s.Kind == kApp && s.Op == "mk-slice" {
		return s.Args[0]
	}
	return App("s.arr", SInt, s)
}
func slOff(s *Term) *Term {
	if s.Kind == kApp && s.Op == "mk-slice" {
		return s.Args[1]
	}
	return App("s.off", SInt, s)
}
func slLen(s *Term) *Term {
	if s.Kind == kApp && s.Op == "mk-slice" {
		return s.Args[2]
	}
	return App("s.len", SInt, s)
}
func slCap(s *Term) *Term {
	if s.Kind == kApp && s.Op == "mk-slice" {
		return s.Args[3]
	}
	return App("s.cap", SInt, s)
}

var nilSlice = mkSlice(IntLit(0), IntLit(0), IntLit(0), IntLit(0))

func mkIface(tag, val *Term) *Term { return App("mk-iface", SIface, tag, val) }
func ifTag(i *Term) *Term {
	if i.Kind == kApp && i.Op == "mk-iface" {
		return i.Args[0]
	}
	return App("i.tag", SInt, i)
}
func ifVal(i *Term) *Term {
	if i.Kind == kApp && i.Op == "mk-iface" {
		return i.Args[1]
	}
	return App("i.val", SInt, i)
}

var nilIface = mkIface(IntLit(0), IntLit(0))

func (e *Engine) tagOf(t types.Type) int {
	k := canonType(types.TypeString(t, nil))
	if id, ok := e.tags[k]; ok {
		return id
	}
	id := len(e.tags) + 1
	e.tags[k] = id
	e.tagTypes = append(e.tagTypes, t)
	return id
}

// implementers of an interface among the repository's named types (closed world).
func (e *Engine) implementers(it types.Type) []types.Type {
	key := types.TypeString(it, nil)
	if r, ok := e.implCache[key]; ok {
		return r
	}
	iface, ok := it.Underlying().(*types.Interface)
	if !ok {
		return nil
	}
	var out []types.Type
	for _, n := range e.allNamed {
		if _, isI := n.Underlying().(*types.Interface); isI {
			continue
		}
		if types.Implements(n, iface) {
			out = append(out, n)
		} else if p := types.NewPointer(n); types.Implements(p, iface) {
			out = append(out, p)
		}
	}
	sort.Slice(out, func(i, j int) bool { return types.TypeString(out[i], nil) < types.TypeString(out[j], nil) })
	e.implCache[key] = out
	return out
}

// closedIface: named repository interface declared `closed` in a contract file: its dynamic
// types are exactly the repository's implementers (assumption A-closed, listed in evidence).
func (e *Engine) closedIface(t types.Type) bool {
	n, ok := t.(*types.Named)
	if !ok {
		return false
	}
	it, ok := n.Underlying().(*types.Interface)
	if !ok || it.NumMethods() == 0 || n.Obj().Pkg() == nil {
		return false
	}
	return e.cs.Closed[n.Obj().Pkg().Path()+"."+n.Obj().Name()]
}

func isPointerLike(t types.Type) bool {
	switch t.Underlying().(type) {
	case *types.Pointer, *types.Map, *types.Chan, *types.Signature:
		return true
	}
	return false
}

// box / unbox for non-pointer dynamic types stored in interfaces.
func (e *Engine) boxFuns(t types.Type, mode string) (string, string, string) {
	k := e.typeKey(t)
	if mode == "bv" {
		k += "$bv"
	}
	s := e.sortOf(t, mode)
	e.reg.AddFun("box$"+k, []string{s}, SInt)
	e.reg.AddFun("unbox$"+k, []string{SInt}, s)
	return "box$" + k, "unbox$" + k, s
}

// zeroOf returns the zero value of a type.
func (e *Engine) zeroOf(t types.Type, mode string) *Term {
	if e.opaqueStruct(t) {
		s := e.sortOf(t, mode)
		return Var("zero$"+e.typeKey(t), s)
	}
	switch u := t.Underlying().(type) {
	case *types.Basic:
		if isBool(u) {
			return TFalse
		}
		if ii, ok := intInfoOf(u); ok {
			if mode == "bv" {
				return BVLit(big.NewInt(0), ii.w)
			}
			return IntLit(0)
		}
		if isFloat(u) {
			if u.Kind() == types.Float32 {
				return Lit("(_ +zero 8 24)", SFP32)
			}
			return Lit("(_ +zero 11 53)", SFP64)
		}
		if isString(u) {
			return Lit("(as seq.empty Str)", SStr)
		}
		return IntLit(0)
	case *types.Pointer, *types.Map, *types.Chan, *types.Signature:
		return IntLit(0)
	case *types.Slice:
		return nilSlice
	case *types.Interface:
		return nilIface
	case *types.Array:
		return App("(as const "+e.sortOf(t, mode)+")", e.sortOf(t, mode), e.zeroOf(u.Elem(), mode))
	case *types.Struct:
		fs := make([]*Term, u.NumFields())
		for i := range fs {
			fs[i] = e.zeroOf(u.Field(i).Type(), mode)
		}
		return e.structVal(t, u, mode, fs)
	}
	return IntLit(0)
}

const maxCapBits = 48 // assumption A-cap: no slice, string or map holds 2^48 or more elements

// typeInv: typing assumptions for a value of Go type t. alloc is the current allocation
// watermark (may be nil).
func (e *Engine) typeInv(v *Term, t types.Type, mode string, alloc *Term) *Term {
	if t == nil {
		return TTrue
	}
	if e.opaqueStruct(t) {
		return TTrue
	}
	capMax := BigLit(new(big.Int).Lsh(big.NewInt(1), maxCapBits))
	refOK := func(r *Term) *Term {
		c := ILe(IntLit(0), r)
		if alloc != nil {
			c = And(c, ILt(r, alloc))
		}
		return c
	}
	switch u := t.Underlying().(type) {
	case *types.Basic:
		if ii, ok := intInfoOf(u); ok && mode != "bv" {
			return And(ILe(BigLit(ii.min()), v), ILe(v, BigLit(ii.max())))
		}
		if isString(u) {
			return ILe(App("seq.len", SInt, v), capMax)
		}
		return TTrue
	case *types.Pointer:
		// every non-nil pointer of static type *T points to an object allocated with type T
		if _, isS := u.Elem().Underlying().(*types.Struct); isS {
			if _, named := u.Elem().(*types.Named); named {
				e.reg.AddFun("rtype", []string{SInt}, SInt)
				return And(refOK(v), Implies(Not(Eq(v, IntLit(0))), Eq(App("rtype", SInt, v), IntLit(int64(e.tagOf(u.Elem()))))))
			}
		}
		return refOK(v)
	case *types.Map, *types.Chan, *types.Signature:
		return refOK(v)
	case *types.Slice:
		return And(refOK(slArr(v)), ILe(IntLit(0), slOff(v)), ILe(IntLit(0), slLen(v)), ILe(slLen(v), slCap(v)),
			ILe(slCap(v), capMax), ILe(slOff(v), capMax),
			Implies(Eq(slArr(v), IntLit(0)), And(Eq(slCap(v), IntLit(0)), Eq(slOff(v), IntLit(0)))))
	case *types.Interface:
		base := And(ILe(IntLit(0), ifTag(v)), Implies(Eq(ifTag(v), IntLit(0)), Eq(ifVal(v), IntLit(0))))
		if e.closedIface(t) {
			var alts []*Term
			alts = append(alts, Eq(ifTag(v), IntLit(0)))
			for _, impl := range e.implementers(t) {
				c := Eq(ifTag(v), IntLit(int64(e.tagOf(impl))))
				if isPointerLike(impl) {
					// A-typednil: interface values do not hold nil pointers
					c = And(c, ILt(IntLit(0), ifVal(v)))
					if alloc != nil {
						c = And(c, ILt(ifVal(v), alloc))
					}
				}
				alts = append(alts, c)
			}
			base = And(base, Or(alts...))
		}
		return base
	case *types.Struct:
		var cs []*Term
		for i := 0; i < u.NumFields(); i++ {
			cs = append(cs, e.typeInv(e.structField(t, u, mode, v, i), u.Field(i).Type(), mode, alloc))
		}
		return And(cs...)
	}
	return TTrue
}

// Elem reads element off+idx of a backing-array value through a named function, so that
// quantified facts about slice elements have a usable trigger (elem(A, off, i) instead of
// select(A, off + i), whose arithmetic index cannot be matched).
func (e *Engine) Elem(inner, off, idx *Term) *Term {
	_, es := arrParts(inner.Sort)
	name := "elem$" + cleanName(strings.NewReplacer("(", "", ")", "", " ", "_").Replace(es))
	e.reg.mu.Lock()
	_, known := e.reg.funs[name]
	e.reg.mu.Unlock()
	if !known {
		e.reg.AddFun(name, []string{inner.Sort, SInt, SInt}, es)
		a, o, i := Var("el$A", inner.Sort), Var("el$o", SInt), Var("el$i", SInt)
		app := App(name, es, a, o, i)
		e.reg.AddAxiom(name, "def:"+name, Forall([]*Term{a, o, i}, Eq(app, App("select", es, a, App("+", SInt, o, i))), []*Term{app}), 0)
	}
	// literal offsets and indices need no indirection
	if o, ok := off.intLitVal(); ok {
		if i, ok2 := idx.intLitVal(); ok2 {
			return Select(inner, BigLit(new(big.Int).Add(o, i)))
		}
	}
	return App(name, es, inner, off, idx)
}
