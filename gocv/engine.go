package main

// Loading the repository (go/packages + go/ssa), contract discovery, recursive spec
// functions (ground definitional instances), intrinsics.

import (
	"fmt"
	"go/ast"
	"go/token"
	"go/types"
	"os"
	"path/filepath"
	"sort"
	"strings"

	"golang.org/x/tools/go/packages"
	"golang.org/x/tools/go/ssa"
	"golang.org/x/tools/go/ssa/ssautil"
)

type recDef struct {
	name   string
	params []*Term
	body   *Term
}

var recDefs = map[string]*recDef{}
var recFuel = 2

func verifDir() string {
	if d := os.Getenv("VERIF_DIR"); d != "" {
		return d
	}
	return "/verif"
}

// outDir: where work/, replays/ and evidence/ are written (self-tests redirect it).
func outDir() string {
	if d := os.Getenv("VERIF_OUT"); d != "" {
		return d
	}
	return verifDir()
}

func repoDir() string {
	if d := os.Getenv("VERIF_REPO"); d != "" {
		return d
	}
	return "/repo"
}

// writeAltMod generates work/alt.mod (+alt.sum) = /repo/go.mod + replace of grocksdb by the pure-Go stub.
func writeAltMod(work string) (string, error) {
	repo := repoDir()
	mod, err := os.ReadFile(filepath.Join(repo, "go.mod"))
	if err != nil {
		return "", err
	}
	sum, _ := os.ReadFile(filepath.Join(repo, "go.sum"))
	alt := filepath.Join(work, "alt.mod")
	txt := string(mod) + "\nreplace github.com/linxGnu/grocksdb => " + filepath.Join(verifDir(), "stubs", "grocksdb") + "\n"
	if err := os.WriteFile(alt, []byte(txt), 0o644); err != nil {
		return "", err
	}
	if err := os.WriteFile(filepath.Join(work, "alt.sum"), sum, 0o644); err != nil {
		return "", err
	}
	return alt, nil
}

func goEnv() []string {
	env := os.Environ()
	env = append(env, "GOFLAGS=-mod=mod", "GOPROXY=off", "GOSUMDB=off", "GOTOOLCHAIN=local", "CGO_ENABLED=1")
	return env
}

var loadedPkgs []*packages.Package

func LoadEngine(work string, patterns []string) (*Engine, error) {
	alt, err := writeAltMod(work)
	if err != nil {
		return nil, err
	}
	cfg := &packages.Config{
		Mode:       packages.NeedName | packages.NeedFiles | packages.NeedCompiledGoFiles | packages.NeedImports | packages.NeedTypes | packages.NeedTypesSizes | packages.NeedSyntax | packages.NeedTypesInfo | packages.NeedDeps | packages.NeedModule,
		Dir:        repoDir(),
		Env:        goEnv(),
		BuildFlags: []string{"-modfile=" + alt, "-tags=verif"},
	}
	pkgs, err := packages.Load(cfg, patterns...)
	if err != nil {
		return nil, err
	}
	var errs []string
	for _, p := range pkgs {
		for _, e := range p.Errors {
			errs = append(errs, e.Error())
		}
	}
	if len(errs) > 0 {
		return nil, fmt.Errorf("repository does not type-check:\n%s", strings.Join(errs, "\n"))
	}
	loadedPkgs = pkgs
	prog, spkgs := ssautil.AllPackages(pkgs, ssa.GlobalDebug|ssa.InstantiateGenerics)
	e := &Engine{workDir: work, prog: prog, pkgs: map[string]*ssa.Package{}, cs: NewContractSet(), reg: NewRegistry(), tags: map[string]int{}, counter: map[string]int{}, warnings: map[string]bool{}, implCache: map[string][]types.Type{}}
	for i, p := range pkgs {
		if spkgs[i] == nil {
			continue
		}
		if p.Module != nil && e.modPath == "" {
			e.modPath = p.Module.Path
		}
	}
	for i, p := range pkgs {
		if spkgs[i] == nil {
			continue
		}
		spkgs[i].Build()
		e.pkgs[p.PkgPath] = spkgs[i]
		syntaxOf[spkgs[i]] = p.Syntax
		scope := p.Types.Scope()
		for _, n := range scope.Names() {
			if tn, ok := scope.Lookup(n).(*types.TypeName); ok && !tn.IsAlias() {
				if named, ok := tn.Type().(*types.Named); ok && named.TypeParams().Len() == 0 {
					e.allNamed = append(e.allNamed, named)
				}
			}
		}
		// contract files of this package
		for _, f := range p.GoFiles {
			if strings.HasSuffix(f, "_contracts_verif.go") {
				if err := e.cs.ParseContractFile(f, p.PkgPath); err != nil {
					return nil, err
				}
			}
		}
	}
	// extern contracts shipped with the verifier
	ext, _ := filepath.Glob(filepath.Join(verifDir(), "contracts", "*.gocv"))
	sort.Strings(ext)
	for _, f := range ext {
		if err := e.cs.ParseContractFile(f, ""); err != nil {
			return nil, err
		}
	}
	return e, nil
}

var syntaxOf = map[*ssa.Package][]*ast.File{}

func (e *Engine) filesOf(p *ssa.Package) []*ast.File { return syntaxOf[p] }

// findFunc resolves a contract key to an ssa.Function.
func (e *Engine) findFunc(pkgPath, key string) *ssa.Function {
	pkg := e.pkgs[pkgPath]
	if pkg == nil {
		return nil
	}
	if !strings.HasPrefix(key, "(") {
		// plain function, possibly "outer$1" closure
		if f := pkg.Func(key); f != nil {
			return f
		}
		if i := strings.Index(key, "$"); i > 0 {
			if outer := pkg.Func(key[:i]); outer != nil {
				for _, a := range outer.AnonFuncs {
					if a.Name() == key {
						return a
					}
				}
			}
		}
		return nil
	}
	// method: (T).M or (*T).M
	i := strings.Index(key, ").")
	if i < 0 {
		return nil
	}
	recv := key[1:i]
	meth := key[i+2:]
	ptr := strings.HasPrefix(recv, "*")
	recv = strings.TrimPrefix(recv, "*")
	anon := ""
	if j := strings.Index(meth, "$"); j > 0 {
		anon = meth
		meth = meth[:j]
	}
	obj := pkg.Pkg.Scope().Lookup(recv)
	tn, ok := obj.(*types.TypeName)
	if !ok {
		return nil
	}
	var t types.Type = tn.Type()
	if ptr {
		t = types.NewPointer(t)
	}
	f := e.prog.LookupMethod(t, pkg.Pkg, meth)
	if f == nil {
		return nil
	}
	// a method declared on T looked up via *T yields a wrapper; insist on the declared one
	if f.Synthetic != "" {
		return nil
	}
	if anon != "" {
		for _, a := range f.AnonFuncs {
			if a.Name() == anon {
				return a
			}
		}
		return nil
	}
	return f
}

// ensureSpecDef translates the body of a recursive spec function once.
func (e *Engine) ensureSpecDef(sf *SpecFun, env *SpecEnv) {
	if _, ok := recDefs[sf.Name]; ok {
		return
	}
	rd := &recDef{name: "sp$" + sf.Name}
	recDefs[sf.Name] = rd // set first: recursion
	sub := &SpecEnv{x: env.x, s: env.s, bound: map[string]Val{}, fnPkg: env.fnPkg, pure: true}
	for _, p := range sf.Params {
		srt, gt, err := env.parseSort(p.Type)
		if err != nil {
			e.warn("spec %s: %v", sf.Name, err)
			return
		}
		v := Var("sp$"+sf.Name+"$"+p.Name, srt)
		rd.params = append(rd.params, v)
		sub.bound[p.Name] = Val{T: v, GoT: gt}
	}
	body, err := sub.eval(sf.Body)
	if err != nil {
		e.warn("spec %s: %v", sf.Name, err)
		delete(recDefs, sf.Name)
		return
	}
	rd.body = body.T
	// opaque, non-recursive definitions also get a quantified definitional axiom (safe: no matching
	// loop), so that solver-introduced skolem instances unfold too
	if sf.Opaque && !sf.Rec && len(rd.params) > 0 {
		var args []*Term
		m := map[string]*Term{}
		for _, p := range rd.params {
			b := Var("df$"+p.Op, p.Sort)
			args = append(args, b)
			m[p.Op] = b
		}
		app := App(rd.name, body.T.Sort, args...)
		e.reg.AddAxiom(rd.name, "def:"+sf.Name, Forall(args, Eq(app, rd.body.Subst(m)), []*Term{app}), 0)
	}
}

// unfoldRecDefs returns definitional instances for ground applications of recursive spec functions.
func unfoldRecDefs(terms []*Term) []*Term {
	if len(recDefs) == 0 {
		return nil
	}
	names := map[string]bool{}
	byName := map[string]*recDef{}
	for _, rd := range recDefs {
		if rd.body != nil {
			names[rd.name] = true
			byName[rd.name] = rd
		}
	}
	done := map[string]bool{}
	var out []*Term
	frontier := terms
	for round := 0; round < recFuel; round++ {
		apps := map[string]*Term{}
		for _, t := range frontier {
			t.groundApps(names, apps, map[string]bool{})
		}
		var next []*Term
		for _, k := range sortedKeys(apps) {
			if done[k] {
				continue
			}
			done[k] = true
			app := apps[k]
			rd := byName[app.Op]
			m := map[string]*Term{}
			for i, p := range rd.params {
				m[p.Op] = app.Args[i]
			}
			inst := Eq(app, rd.body.Subst(m))
			out = append(out, inst)
			next = append(next, inst)
		}
		if len(next) == 0 {
			break
		}
		frontier = next
	}
	return out
}

// ---------- intrinsics ----------

type intrinsic func(x *Exec, s *State, in ssa.Instruction, f *ssa.Function, args []Val) (Val, error)

var intrinsics = map[string]intrinsic{}

func intrinsicMods(x *Exec, name string, f *ssa.Function) map[string]bool {
	return map[string]bool{}
}

func lockID(v Val) string {
	if v.LV != nil {
		switch v.LV.Kind {
		case lvField:
			if v.LV.Base == nil {
				return fmt.Sprintf("%s.%s", canonID(v.LV.Ref), fieldName(v.LV.ST.Field(v.LV.Field), v.LV.Field))
			}
		case lvGlobal:
			return "global." + v.LV.Global.Name()
		}
		return "lv?"
	}
	if v.T != nil {
		return canonID(v.T)
	}
	return "?"
}

func init() {
	lock := func(mode string) intrinsic {
		return func(x *Exec, s *State, in ssa.Instruction, f *ssa.Function, args []Val) (Val, error) {
			id := lockID(args[0])
			if held, isHeld := s.locks[id]; isHeld && id != "?" && id != "lv?" {
				x.emit(s, "lock", "reacquire:"+x.siteName(s, in), TFalse, fmt.Sprintf("lock(%s) of %s while this goroutine already holds it (%s): self-deadlock", mode, id, held))
			}
			if _, held := s.locks[id]; !held && interferenceOn {
				// other goroutines may have run while the lock was not held: what this lock guards is
				// unknown again (a value read before the acquisition is stale)
				x.havocGuardedBy(s, args[0])
			}
			s.locks[id] = mode
			return Val{}, nil
		}
	}
	unlock := func(mode string) intrinsic {
		return func(x *Exec, s *State, in ssa.Instruction, f *ssa.Function, args []Val) (Val, error) {
			id := lockID(args[0])
			held := s.locks[id]
			if held != mode {
				x.emit(s, "lock", "unlock:"+x.siteName(s, in), TFalse, fmt.Sprintf("unlock(%s) of %s while held=%q", mode, id, held))
			}
			delete(s.locks, id)
			return Val{}, nil
		}
	}
	intrinsics["(*sync.Mutex).Lock"] = lock("W")
	intrinsics["(*sync.Mutex).Unlock"] = unlock("W")
	intrinsics["(*sync.RWMutex).Lock"] = lock("W")
	intrinsics["(*sync.RWMutex).Unlock"] = unlock("W")
	intrinsics["(*sync.RWMutex).RLock"] = lock("R")
	intrinsics["(*sync.RWMutex).RUnlock"] = unlock("R")
	// sync/atomic on addressable int64 cells
	atomicLV := func(args []Val) (*LValue, error) {
		if len(args) == 0 {
			return nil, fmt.Errorf("atomic: no operand")
		}
		if args[0].LV != nil {
			return args[0].LV, nil
		}
		if args[0].T != nil && args[0].GoT != nil {
			if p, ok := args[0].GoT.Underlying().(*types.Pointer); ok {
				return &LValue{Kind: lvCell, Ref: args[0].T, Typ: p.Elem()}, nil
			}
		}
		return nil, fmt.Errorf("atomic: unsupported operand")
	}
	intrinsics["sync/atomic.AddInt64"] = func(x *Exec, s *State, in ssa.Instruction, f *ssa.Function, args []Val) (Val, error) {
		lv, err := atomicLV(args)
		if err != nil {
			return Val{}, err
		}
		old, err := x.load(s, lv)
		if err != nil {
			return Val{}, err
		}
		ii := intInfo{64, true}
		nv := x.name(s, "atomic$add", wrapInt(IAdd(old, args[1].T), ii))
		if x.mode == "bv" {
			return Val{}, fmt.Errorf("atomic.AddInt64 in bv mode")
		}
		if err := x.store(s, lv, nv); err != nil {
			return Val{}, err
		}
		return tv(nv, types.Typ[types.Int64]), nil
	}
	intrinsics["sync/atomic.LoadInt64"] = func(x *Exec, s *State, in ssa.Instruction, f *ssa.Function, args []Val) (Val, error) {
		lv, err := atomicLV(args)
		if err != nil {
			return Val{}, err
		}
		v, err := x.load(s, lv)
		if err != nil {
			return Val{}, err
		}
		v = x.name(s, "atomic$load", v)
		s.assume(x.eng.typeInv(v, types.Typ[types.Int64], x.mode, nil))
		return tv(v, types.Typ[types.Int64]), nil
	}
	intrinsics["sync/atomic.StoreInt64"] = func(x *Exec, s *State, in ssa.Instruction, f *ssa.Function, args []Val) (Val, error) {
		lv, err := atomicLV(args)
		if err != nil {
			return Val{}, err
		}
		return Val{}, x.store(s, lv, args[1].T)
	}
}

// declaredLocals lists the identifiers a function body declares (:=, var, range, type switch,
// nested function literals excluded), in source order. Contracts record this list (`locals (...)`)
// so that a local that was renamed in the code can still be found by its position.
func declaredLocals(fn *ssa.Function) []string {
	syn := fn.Syntax()
	if syn == nil {
		return nil
	}
	var body *ast.BlockStmt
	switch d := syn.(type) {
	case *ast.FuncDecl:
		body = d.Body
	case *ast.FuncLit:
		body = d.Body
	}
	if body == nil {
		return nil
	}
	var out []string
	add := func(id *ast.Ident) {
		if id != nil && id.Name != "_" {
			out = append(out, id.Name)
		}
	}
	seenDef := map[*ast.Ident]bool{}
	ast.Inspect(body, func(n ast.Node) bool {
		switch st := n.(type) {
		case *ast.FuncLit:
			return false
		case *ast.AssignStmt:
			if st.Tok == token.DEFINE {
				for _, l := range st.Lhs {
					if id, ok := l.(*ast.Ident); ok && !seenDef[id] {
						seenDef[id] = true
						add(id)
					}
				}
			}
		case *ast.ValueSpec:
			for _, id := range st.Names {
				add(id)
			}
		case *ast.RangeStmt:
			if st.Tok == token.DEFINE {
				if id, ok := st.Key.(*ast.Ident); ok {
					add(id)
				}
				if id, ok := st.Value.(*ast.Ident); ok {
					add(id)
				}
			}
		case *ast.TypeSwitchStmt:
			if as, ok := st.Assign.(*ast.AssignStmt); ok && as.Tok == token.DEFINE {
				if id, ok := as.Lhs[0].(*ast.Ident); ok {
					seenDef[id] = true
					add(id)
				}
			}
		}
		return true
	})
	return out
}
