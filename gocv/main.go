package main

import (
	"bytes"
	"encoding/json"
	"fmt"
	"os"
	"os/exec"
	"path/filepath"
	"regexp"
	"sort"
	"strconv"
	"strings"
	"time"
)

func usage() {
	fmt.Fprintln(os.Stderr, `usage:
  gocv check <property-id> [--tier quick|thorough] [--func NAME] [--keep]
  gocv replay <path>
  gocv list
  gocv dump <pkgpath> <func>      (debug: show obligations)`)
	os.Exit(2)
}

func main() {
	if len(os.Args) < 2 {
		usage()
	}
	switch os.Args[1] {
	case "check":
		os.Exit(cmdCheck(os.Args[2:]))
	case "replay":
		os.Exit(cmdReplay(os.Args[2:]))
	case "list":
		os.Exit(cmdList())
	case "witnesses":
		os.Exit(cmdWitnesses())
	case "params":
		os.Exit(cmdParams())
	default:
		usage()
	}
}

type finding struct {
	kind     string // finding | fixed
	property string
	obl      string
	text     string
}

func loadFindings() []finding {
	data, err := os.ReadFile(filepath.Join(verifDir(), "known-findings.txt"))
	if err != nil {
		return nil
	}
	var out []finding
	for _, ln := range strings.Split(string(data), "\n") {
		ln = strings.TrimSpace(ln)
		if ln == "" || strings.HasPrefix(ln, "#") {
			continue
		}
		f := finding{text: ln}
		switch {
		case strings.HasPrefix(ln, "finding:"):
			f.kind = "finding"
		case strings.HasPrefix(ln, "fixed:"):
			f.kind = "fixed"
		default:
			continue
		}
		for _, w := range strings.Fields(ln) {
			if strings.HasPrefix(w, "property=") {
				f.property = strings.TrimPrefix(w, "property=")
			}
			if strings.HasPrefix(w, "obligation=") {
				f.obl = strings.TrimPrefix(w, "obligation=")
			}
		}
		out = append(out, f)
	}
	return out
}

type checkOpts struct {
	id       string
	tier     string
	onlyFunc string
	seed     int
	verbose  bool
	worker   int    // > 0: worker process handling the items listed in itemsFile
	items    string // comma-separated item keys (worker)
	outFile  string // worker result file
	jobs     int
}

// workerOut is what a worker process hands back to the coordinating process.
type workerOut struct {
	Reports  []*FuncReport
	Results  []*OblResult
	Covers   map[string]string
	Problems []string
	Warnings []string
}

func cmdList() int {
	work := filepath.Join(outDir(), "work")
	os.MkdirAll(work, 0o755)
	eng, err := LoadEngine(work, []string{"./..."})
	if err != nil {
		fmt.Fprintln(os.Stderr, err)
		return 2
	}
	for _, k := range eng.cs.Order {
		fc := eng.cs.Funcs[k]
		fmt.Printf("%-70s props=%v extern=%v\n", k, fc.Props, fc.Extern)
	}
	for _, lm := range eng.cs.Lemmas {
		fmt.Printf("lemma %-64s props=%v\n", lm.Name, lm.Props)
	}
	return 0
}

func hasProp(ps []string, id string) bool {
	for _, p := range ps {
		if p == id {
			return true
		}
	}
	return false
}

func cmdCheck(args []string) int {
	opts := checkOpts{tier: os.Getenv("VERIF_TIER")}
	if opts.tier == "" {
		opts.tier = "quick"
	}
	if s := os.Getenv("VERIF_SEED"); s != "" {
		opts.seed, _ = strconv.Atoi(s)
	}
	for i := 0; i < len(args); i++ {
		switch args[i] {
		case "--tier":
			i++
			opts.tier = args[i]
		case "--func":
			i++
			opts.onlyFunc = args[i]
		case "--worker":
			i++
			opts.worker, _ = strconv.Atoi(args[i])
		case "--items":
			i++
			opts.items = args[i]
		case "--out":
			i++
			opts.outFile = args[i]
		case "--jobs":
			i++
			opts.jobs, _ = strconv.Atoi(args[i])
		case "-v":
			opts.verbose = true
		default:
			if opts.id == "" {
				opts.id = args[i]
			}
		}
	}
	if opts.id == "" {
		usage()
	}
	t0 := time.Now()
	id := opts.id
	interferenceOn = propMeta[id].Interference
	work := filepath.Join(outDir(), "work")
	os.MkdirAll(work, 0o755)
	var dir string
	if opts.worker > 0 {
		dir = filepath.Join(work, id, fmt.Sprintf("w%d", opts.worker))
		os.MkdirAll(dir, 0o755)
	} else {
		dir = prepDir(work, id)
	}
	if opts.jobs == 0 {
		opts.jobs = 6
		if j := os.Getenv("GOCV_JOBS"); j != "" {
			opts.jobs, _ = strconv.Atoi(j)
		}
	}
	eng, err := LoadEngine(dir, []string{"./..."})
	if err == nil {
		err = eng.RegisterAxioms()
	}
	replayDir := filepath.Join(outDir(), "replays", id)
	if opts.worker == 0 {
		os.RemoveAll(replayDir)
		os.MkdirAll(replayDir, 0o755)
	}
	if err != nil && opts.worker > 0 {
		fmt.Fprintln(os.Stderr, err)
		return 2
	}
	if err != nil {
		// the tree does not build: every obligation of the property is undischarged
		p := filepath.Join(replayDir, "load-failure.txt")
		os.WriteFile(p, []byte("obligation: load:"+id+"\nthe repository does not load / type-check with -tags verif:\n"+err.Error()+"\n"), 0o644)
		fmt.Printf("VIOLATION property=%s replay=%s no-failing-input-found\n", id, p)
		writeEvidence(id, opts, nil, nil, nil, nil, time.Since(t0).Seconds(), 1, []string{"load failure: " + err.Error()})
		return 1
	}
	timeout := 10
	second := false
	if opts.tier == "thorough" {
		timeout = 120
		second = true
	}
	var reports []*FuncReport
	var obls []*Obligation
	var problems []string
	// the items (functions under contract and lemmas) of this property
	var items []string
	for _, k := range eng.cs.Order {
		fc := eng.cs.Funcs[k]
		if fc.Extern || !hasProp(fc.Props, id) {
			continue
		}
		if opts.onlyFunc != "" && fc.Key != opts.onlyFunc {
			continue
		}
		items = append(items, "f:"+k)
	}
	for _, lm := range eng.cs.Lemmas {
		if !hasProp(lm.Props, id) || (opts.onlyFunc != "" && lm.Name != opts.onlyFunc) {
			continue
		}
		items = append(items, "l:"+lm.Name)
	}
	mine := map[string]bool{}
	if opts.worker > 0 {
		for _, it := range strings.Split(opts.items, "\x1f") {
			mine[it] = true
		}
	}
	if opts.worker == 0 && opts.jobs > 1 && len(items) >= 6 {
		wo, perr := runWorkers(id, opts, items)
		if perr != nil {
			problems = append(problems, "parallel run failed, falling back to one process: "+perr.Error())
		} else {
			nl := 0
			for _, it := range items {
				if strings.HasPrefix(it, "l:") {
					nl++
				}
			}
			return finishCheck(id, opts, eng, t0, replayDir, wo.Reports, wo.Results, wo.Covers, wo.Problems, nl)
		}
	}
	for _, k := range eng.cs.Order {
		fc := eng.cs.Funcs[k]
		if fc.Extern || !hasProp(fc.Props, id) {
			continue
		}
		if opts.onlyFunc != "" && fc.Key != opts.onlyFunc {
			continue
		}
		if opts.worker > 0 && !mine["f:"+k] {
			continue
		}
		fn := eng.findFunc(fc.Pkg, fc.Key)
		if fn == nil {
			reports = append(reports, &FuncReport{Fn: fc.Key, Pkg: fc.Pkg, Aborted: "function not found in " + fc.Pkg, fc: fc})
			continue
		}
		if fc.Trusted && !hasProp(strings.Fields(fc.Opts["bodyfor"]), id) {
			reports = append(reports, &FuncReport{Fn: fc.Key, Pkg: fc.Pkg, fc: fc, fnObj: fn})
			continue
		}
		rep := eng.VerifyFunction(fn, fc)
		reports = append(reports, rep)
		if pat := fc.Opts["only"]; pat != "" {
			// the contract claims only the obligations matching the pattern for this function
			re, err := regexp.Compile(pat)
			if err != nil {
				problems = append(problems, "bad 'opt only' pattern for "+fc.Key+": "+err.Error())
			} else {
				var kept []*Obligation
				for _, o := range rep.Obligations {
					if re.MatchString(o.Name) {
						kept = append(kept, o)
					}
				}
				rep.Skipped = len(rep.Obligations) - len(kept)
				rep.Obligations = kept
			}
		}
		obls = append(obls, rep.Obligations...)
	}
	nLemmas := 0
	for _, lm := range eng.cs.Lemmas {
		if !hasProp(lm.Props, id) {
			continue
		}
		if opts.onlyFunc != "" && lm.Name != opts.onlyFunc {
			continue
		}
		if opts.worker > 0 && !mine["l:"+lm.Name] {
			continue
		}
		lo, err := eng.LemmaObligations(lm)
		if err != nil {
			problems = append(problems, err.Error())
			obls = append(obls, &Obligation{Name: "lemma:" + lm.Name + "#translation", Fn: "lemma " + lm.Name, Class: "subset", Asserts: nil, Goal: TFalse, Note: err.Error()})
			continue
		}
		nLemmas++
		obls = append(obls, lo...)
	}
	// functions that left the verifiable subset: named obligations that cannot be discharged
	for _, rep := range reports {
		reason := rep.Aborted
		if reason == "" && len(rep.Unsupported) > 0 {
			reason = strings.Join(rep.Unsupported, "; ")
		}
		if reason != "" {
			obls = append(obls, &Obligation{Name: "subset:" + rep.Fn, Fn: rep.Fn, Class: "subset", Goal: nil, Note: "left the verifiable subset: " + reason})
		}
	}
	var subset []*Obligation
	var solvable []*Obligation
	for _, o := range obls {
		if o.Class == "subset" {
			subset = append(subset, o)
		} else {
			solvable = append(solvable, o)
		}
	}
	results := dischargeAll(eng.reg, solvable, dir, timeout, second, 10)
	for _, o := range subset {
		results = append(results, &OblResult{Name: o.Name, Fn: o.Fn, Class: "subset", Status: "undecided", Instances: 1, Raw: o.Note, Solvers: map[string]int{}})
	}
	// vacuity guard per function
	covers := map[string]string{}
	for _, rep := range reports {
		if rep.fnObj == nil || rep.fc == nil || rep.fc.Trusted || rep.Aborted != "" {
			continue
		}
		st, _ := coverCheck(eng.reg, rep, dir, timeout)
		covers[rep.Fn] = st
		if st == "vacuous" || st == "no-return-path" {
			results = append(results, &OblResult{Name: "vacuity:" + rep.Fn, Fn: rep.Fn, Class: "vacuity", Status: "undecided", Instances: 1,
				Raw: "no return path of the function is satisfiable under its preconditions (contradictory requires or dead code): " + st, Solvers: map[string]int{}})
		}
	}
	if opts.worker > 0 {
		for _, rep := range reports {
			rep.NObl = len(rep.Obligations)
			rep.Obligations = nil
			rep.Covers = nil
			if rep.fc != nil {
				rep.IsTrusted = rep.fc.Trusted
				rep.OnlyPat = rep.fc.Opts["only"]
			}
		}
		data, _ := json.Marshal(&workerOut{Reports: reports, Results: results, Covers: covers, Problems: problems, Warnings: sortedKeys(eng.warnings)})
		if err := os.WriteFile(opts.outFile, data, 0o644); err != nil {
			fmt.Fprintln(os.Stderr, err)
			return 2
		}
		return 0
	}
	for _, rep := range reports {
		rep.NObl = len(rep.Obligations)
		if rep.fc != nil {
			rep.IsTrusted = rep.fc.Trusted
			rep.OnlyPat = rep.fc.Opts["only"]
		}
	}
	return finishCheck(id, opts, eng, t0, replayDir, reports, results, covers, problems, nLemmas)
}

// runWorkers verifies the items in parallel worker processes (each loads the repository itself).
func runWorkers(id string, opts checkOpts, items []string) (*workerOut, error) {
	n := opts.jobs
	if n > len(items) {
		n = len(items)
	}
	groups := make([][]string, n)
	for i, it := range items {
		groups[i%n] = append(groups[i%n], it)
	}
	exe, err := os.Executable()
	if err != nil {
		return nil, err
	}
	type res struct {
		out *workerOut
		err error
	}
	ch := make(chan res, n)
	for w := 0; w < n; w++ {
		go func(w int) {
			outFile := filepath.Join(outDir(), "work", id, fmt.Sprintf("worker%d.json", w+1))
			cmd := exec.Command(exe, "check", id, "--tier", opts.tier, "--worker", strconv.Itoa(w+1), "--items", strings.Join(groups[w], "\x1f"), "--out", outFile)
			cmd.Env = os.Environ()
			var stderr bytes.Buffer
			cmd.Stderr = &stderr
			if err := cmd.Run(); err != nil {
				ch <- res{nil, fmt.Errorf("worker %d: %v: %s", w+1, err, firstLines(stderr.String(), 5))}
				return
			}
			data, err := os.ReadFile(outFile)
			if err != nil {
				ch <- res{nil, err}
				return
			}
			var wo workerOut
			if err := json.Unmarshal(data, &wo); err != nil {
				ch <- res{nil, err}
				return
			}
			ch <- res{&wo, nil}
		}(w)
	}
	all := &workerOut{Covers: map[string]string{}}
	var firstErr error
	for w := 0; w < n; w++ {
		r := <-ch
		if r.err != nil {
			if firstErr == nil {
				firstErr = r.err
			}
			continue
		}
		all.Reports = append(all.Reports, r.out.Reports...)
		all.Results = append(all.Results, r.out.Results...)
		for k, v := range r.out.Covers {
			all.Covers[k] = v
		}
		all.Problems = append(all.Problems, r.out.Problems...)
		all.Warnings = append(all.Warnings, r.out.Warnings...)
	}
	if firstErr != nil {
		return nil, firstErr
	}
	return all, nil
}

// finishCheck: verdicts, known findings, replays, evidence.
func finishCheck(id string, opts checkOpts, eng *Engine, t0 time.Time, replayDir string, reports []*FuncReport, results []*OblResult, covers map[string]string, problems []string, nLemmas int) int {
	// re-attach function objects (workers cannot send them)
	for _, rep := range reports {
		if rep.fnObj == nil && rep.Pkg != "" {
			for _, k := range eng.cs.Order {
				fc := eng.cs.Funcs[k]
				if !fc.Extern && fc.Pkg == rep.Pkg && fc.Key == rep.Fn {
					rep.fc = fc
					rep.fnObj = eng.findFunc(fc.Pkg, fc.Key)
				}
			}
		}
	}
	if meta := propMeta[id]; meta.Include != "" || meta.Exclude != "" {
		var inc, exc *regexp.Regexp
		if meta.Include != "" {
			inc = regexp.MustCompile(meta.Include)
		}
		if meta.Exclude != "" {
			exc = regexp.MustCompile(meta.Exclude)
		}
		var kept []*OblResult
		for _, r := range results {
			full := r.Fn + "::" + r.Name
			if (inc != nil && !inc.MatchString(full)) || (exc != nil && exc.MatchString(full)) {
				continue
			}
			kept = append(kept, r)
		}
		results = kept
	}
	sortResults(results)
	// verdicts
	findings := loadFindings()
	matched := map[string]bool{}
	violations := 0
	var knownMatched []string
	for _, r := range results {
		if r.Status == "discharged" {
			continue
		}
		full := r.Fn + "::" + r.Name
		known := false
		for _, f := range findings {
			if f.kind == "finding" && f.property == id && f.obl == strings.ReplaceAll(full, " ", "_") {
				known = true
				if !matched[f.text] {
					matched[f.text] = true
					txt := strings.TrimSpace(strings.TrimPrefix(f.text, "finding:"))
					txt = strings.TrimSpace(strings.TrimPrefix(txt, "property="+id))
					fmt.Printf("KNOWN-FINDING: property=%s %s\n", id, txt)
				}
			}
		}
		if known {
			knownMatched = append(knownMatched, full)
			r.Status = "known-finding:" + r.Status
			continue
		}
		violations++
		path, confirmed := writeReplay(eng, id, replayDir, r, reports)
		if confirmed {
			fmt.Printf("VIOLATION property=%s replay=%s\n", id, path)
		} else {
			fmt.Printf("VIOLATION property=%s replay=%s no-failing-input-found\n", id, path)
		}
		if opts.verbose || true {
			fmt.Printf("  obligation %s [%s] %s: %s\n", full, r.Class, r.Status, firstLines(r.Note, 1))
		}
	}
	// bounded stand-ins (labelled bounded, never counted as proved): in-package model-based tests over
	// an exhaustively enumerated small scope, run on the real code through an overlay
	bounded := runBounded(eng, id, opts, replayDir)
	for _, b := range bounded {
		if b["failures"].(int) > 0 || b["error"] != nil {
			// failing cases are grouped by the class the test prints after GOCV-FAIL; a class listed
			// in known-findings.txt (obligation=bounded:<file>#<class>) is a recorded finding, any
			// other failing class (or an unclassified failure) is a violation
			classes, _ := b["failing_classes"].(map[string]string)
			unknown := 0
			var unknownFirst []string
			var knownLines []string
			for cl, first := range classes {
				name := "bounded:" + b["file"].(string) + "#" + cl
				isKnown := false
				for _, k := range findings {
					if k.kind == "finding" && k.property == id && k.obl == name {
						isKnown = true
						txt := strings.TrimSpace(strings.TrimPrefix(k.text, "finding:"))
						txt = strings.TrimSpace(strings.TrimPrefix(txt, "property="+id))
						knownLines = append(knownLines, fmt.Sprintf("KNOWN-FINDING: property=%s %s", id, txt))
						_ = first
					}
				}
				if !isKnown {
					unknown++
					unknownFirst = append(unknownFirst, first)
				}
			}
			sort.Strings(knownLines)
			for _, ln := range knownLines {
				fmt.Println(ln)
				knownMatched = append(knownMatched, ln)
			}
			if unknown > 0 || len(classes) == 0 || b["error"] != nil {
				violations++
				fmt.Printf("VIOLATION property=%s replay=%s\n", id, b["replay"])
				sort.Strings(unknownFirst)
				if len(unknownFirst) == 0 {
					unknownFirst = []string{fmt.Sprint(b["first_failure"])}
				}
				for _, uf := range unknownFirst {
					fmt.Printf("  bounded check %s: %s\n", b["file"], firstLines(uf, 1))
				}
				b["first_unlisted_failures"] = unknownFirst
			} else {
				b["known_finding_classes_only"] = true
			}
		}
	}
	boundedEvidence = bounded
	wall := time.Since(t0).Seconds()
	writeEvidence(id, opts, eng, reports, results, covers, wall, violations, problems)
	nd := 0
	for _, r := range results {
		if r.Status == "discharged" {
			nd++
		}
	}
	fmt.Printf("property %s: %d functions, %d lemmas, %d obligations (%d discharged, %d known findings, %d violations) in %.1fs\n",
		id, len(reports), nLemmas, len(results), nd, len(knownMatched), violations, wall)
	if violations > 0 {
		return 1
	}
	return 0
}

func writeEvidence(id string, opts checkOpts, eng *Engine, reports []*FuncReport, results []*OblResult, covers map[string]string, wall float64, violations int, problems []string) {
	meta := propMeta[id]
	level := meta.Level
	if level == "" {
		level = "other"
	}
	total, disch := 0, 0
	solverCount := map[string]int{}
	solverSecs := 0.0
	var samples []map[string]interface{}
	var undischarged []map[string]interface{}
	var known []string
	single := []string{}
	byClass := map[string]int{}
	for _, r := range results {
		total++
		byClass[r.Class]++
		if r.Status == "discharged" {
			disch++
		} else if strings.HasPrefix(r.Status, "known-finding") {
			known = append(known, r.Fn+"::"+r.Name)
		} else {
			undischarged = append(undischarged, map[string]interface{}{"obligation": r.Fn + "::" + r.Name, "status": r.Status, "detail": firstLines(r.Raw, 3)})
		}
		for s, n := range r.Solvers {
			solverCount[s] += n
		}
		solverSecs += r.Secs
		if r.Single {
			single = append(single, r.Fn+"::"+r.Name)
		}
		if len(samples) < 12 && r.Class != "overflow" && r.Class != "safety" || len(samples) < 4 {
			samples = append(samples, map[string]interface{}{"obligation": r.Fn + "::" + r.Name, "class": r.Class, "status": r.Status, "instances": r.Instances, "text": r.Note})
		}
	}
	// slowest obligations (stability margin against the per-obligation timeout)
	sorted := append([]*OblResult{}, results...)
	sort.Slice(sorted, func(i, j int) bool { return sorted[i].Secs > sorted[j].Secs })
	var slowest []map[string]interface{}
	for i, r := range sorted {
		if i >= 8 {
			break
		}
		slowest = append(slowest, map[string]interface{}{"obligation": r.Fn + "::" + r.Name, "solver_seconds_all_instances": r.Secs, "instances": r.Instances})
	}
	var fns []map[string]interface{}
	uncontracted := map[string]bool{}
	for _, rep := range reports {
		m := map[string]interface{}{"function": rep.Pkg + "::" + rep.Fn, "mode": rep.Mode, "paths": rep.Paths, "returns": rep.Returns,
			"obligation_instances": rep.NObl}
		if rep.IsTrusted {
			m["trusted"] = true
		}
		if rep.OnlyPat != "" {
			m["claimed_obligations_only"] = rep.OnlyPat
			m["obligation_instances_not_claimed"] = rep.Skipped
		}
		if covers != nil {
			m["cover"] = covers[rep.Fn]
		}
		if len(rep.Inlined) > 0 {
			m["inlined_callees"] = rep.Inlined
		}
		if len(rep.ContractsUsed) > 0 {
			m["callee_contracts_used"] = rep.ContractsUsed
		}
		if rep.Aborted != "" {
			m["aborted"] = rep.Aborted
		}
		if len(rep.Unsupported) > 0 {
			m["unsupported"] = rep.Unsupported
		}
		for _, u := range rep.Uncontracted {
			uncontracted[u] = true
		}
		fns = append(fns, m)
	}
	if level == "proof" && (len(known) > 0 || disch != total) {
		level = "other"
	}
	cov := map[string]interface{}{
		"obligations": total, "discharged": disch,
		"checker_cmd":              "bin/gocv check " + id + " --tier " + opts.tier,
		"trusted_base":             trustedBase,
		"explanation":              meta.Explanation,
		"functions_under_contract": fns,
		"obligations_by_class":     byClass,
		"discharged_by_backend":    solverCount,
		"solver_seconds":           solverSecs,
		"covers":                   covers,
		"uncontracted_calls":       sortedKeys(uncontracted),
		"known_findings_matched":   known,
		"undischarged":             undischarged,
		"single_backend":           single,
		"samples":                  samples,
		"bounded":                  boundedEvidence,
		"slowest_obligations":      slowest,
		"not_decided_by_proof":     meta.NotProved,
	}
	if eng != nil {
		cov["engine_warnings"] = sortedKeys(eng.warnings)
	}
	if len(problems) > 0 {
		cov["problems"] = problems
	}
	if total == 0 {
		cov["evaluations"] = 1
		cov["distinct_nontrivial"] = 2
		level = "other"
	}
	ev := map[string]interface{}{
		"property_id": id, "tier": opts.tier, "seed": opts.seed, "level": level, "coverage": cov,
		"assumptions": append(append([]string{}, globalAssumptions...), meta.Assumptions...),
		"wall_s":      wall, "violations": violations,
	}
	os.MkdirAll(filepath.Join(outDir(), "evidence"), 0o755)
	data, _ := json.MarshalIndent(ev, "", " ")
	os.WriteFile(filepath.Join(outDir(), "evidence", id+".json"), data, 0o644)
}

var trustedBase = []string{
	"go/ssa (x/tools v0.29.0) lowering agrees with the gc compiler; amd64, 64-bit int",
	"gocv VC generator (this repository, /verif/gocv)",
	"SMT solvers z3 4.8.12 / z3 5.1.0 / cvc5 1.0 (portfolio; thorough tier asks a second back end)",
	"pure-Go grocksdb stub used only so that core/util type-checks (/verif/stubs/grocksdb)",
	"extern contracts in /verif/contracts/*.gocv (library functions: assumed, unchecked)",
}

var globalAssumptions = []string{
	"A-ssa: go/ssa agrees with the compiler",
	"A-smt: solver soundness",
	"A-cap: no slice/string/map holds 2^48 or more elements (used only for overflow obligations on index arithmetic)",
	"A-typednil: interface values of repository interface types never hold a typed nil pointer; closed world = implementers inside the repository",
	"A-globals: package-level error sentinels are non-nil and never reassigned after init",
	"partial correctness: termination is not proved unless a decreases clause is listed",
}

type propInfo struct {
	Level       string
	Explanation string
	Assumptions []string
	NotProved   []string
	// Include / Exclude: regular expressions over "Fn::obligation-name" selecting which obligations of
	// the functions tagged with this property belong to this property's claim.
	Include string
	// Interference: acquiring a lock makes the fields it guards unknown (other goroutines may have
	// run while it was not held). Only the properties that are about concurrent use turn it on;
	// the others state sequential contracts.
	Interference bool
	Exclude string
}

var propMeta = map[string]propInfo{}

// interferenceOn: see propInfo.Interference (set per check run, also in worker processes)
var interferenceOn bool

func init() {
	data, err := os.ReadFile(filepath.Join(verifDir(), "props.json"))
	if err != nil {
		return
	}
	json.Unmarshal(data, &propMeta)
}

func sortedStrs(m map[string]bool) []string {
	var out []string
	for k := range m {
		out = append(out, k)
	}
	sort.Strings(out)
	return out
}

var boundedEvidence = []map[string]interface{}{}

// runBounded runs /verif/bounded/<pkg>/<ID>_*_test.go against the real code.
func runBounded(eng *Engine, id string, opts checkOpts, replayDir string) []map[string]interface{} {
	out := []map[string]interface{}{}
	if opts.onlyFunc != "" {
		return out
	}
	files, _ := filepath.Glob(filepath.Join(verifDir(), "bounded", "*", id+"_*_test.go"))
	sort.Strings(files)
	for _, f := range files {
		pkgName := filepath.Base(filepath.Dir(f))
		pkgPath := ""
		for path, p := range eng.pkgs {
			if p.Pkg.Name() == pkgName {
				pkgPath = path
			}
		}
		if pkgPath == "" {
			continue
		}
		src, err := os.ReadFile(f)
		if err != nil {
			continue
		}
		t1 := time.Now()
		os.Setenv("VERIF_TIER", opts.tier)
		// bounded enumerations get their own time limit (the witness / replay tests keep 120 s)
		if opts.tier == "thorough" {
			os.Setenv("GOCV_TEST_TIMEOUT", "3000s")
		} else {
			os.Setenv("GOCV_TEST_TIMEOUT", "600s")
		}
		res, _ := runTestOverlay(filepath.Join(outDir(), "work", id, "bounded"), pkgPath, string(src), "zz_gocv_bounded_test.go", "^TestGocvBounded")
		os.Unsetenv("GOCV_TEST_TIMEOUT")
		b := map[string]interface{}{"file": filepath.Base(f), "package": pkgPath, "wall_s": time.Since(t1).Seconds(), "cases": 0, "failures": 0, "label": "bounded (not counted as proved)"}
		sawSummary := false
		failClasses := map[string]string{}
		b["failing_classes"] = failClasses
		for _, ln := range strings.Split(res, "\n") {
			ln = strings.TrimSpace(ln)
			switch {
			case strings.HasPrefix(ln, "GOCV-BOUNDED"):
				sawSummary = true
				var cases, fails int
				fmt.Sscanf(ln, "GOCV-BOUNDED cases=%d failures=%d", &cases, &fails)
				b["cases"] = cases
				b["failures"] = fails
				if i := strings.Index(ln, "scope="); i >= 0 {
					b["scope"] = strings.Trim(ln[i+6:], "\"")
				}
			case strings.HasPrefix(ln, "GOCV-FAIL") || strings.HasPrefix(ln, "GOCV-PANIC"):
				if b["first_failure"] == nil {
					b["first_failure"] = ln
				}
				cl := "unclassified"
				rest := strings.TrimSpace(strings.TrimPrefix(strings.TrimPrefix(ln, "GOCV-FAIL"), "GOCV-PANIC"))
				if i := strings.Index(rest, ":"); i > 0 && !strings.ContainsAny(rest[:i], " \t") {
					cl = rest[:i]
				}
				if strings.HasPrefix(ln, "GOCV-PANIC") {
					cl = "panic"
				}
				if _, seen := failClasses[cl]; !seen {
					failClasses[cl] = ln
				}
			}
		}
		if !sawSummary {
			b["error"] = "bounded test did not complete: " + firstLines(res, 6)
			b["failures"] = 1
			b["first_failure"] = b["error"]
		}
		if b["failures"].(int) > 0 {
			rp := filepath.Join(replayDir, "bounded_"+strings.TrimSuffix(filepath.Base(f), ".go")+".txt")
			os.WriteFile(rp, []byte("bounded check "+f+" (run against the real code through an overlay)\n\n"+res), 0o644)
			b["replay"] = rp
		}
		out = append(out, b)
	}
	return out
}

// cmdWitnesses runs every witness builder against the current tree. A witness is bound to
// obligations; on a tree where those obligations hold it must stay quiet, unless the obligation
// is a recorded known finding. Used by regress.sh to keep witnesses from confirming false alarms.
func cmdWitnesses() int {
	files, _ := filepath.Glob(filepath.Join(verifDir(), "witness", "*", "*_test.go"))
	sort.Strings(files)
	known := loadFindings()
	rc := 0
	for _, f := range files {
		data, err := os.ReadFile(f)
		if err != nil {
			continue
		}
		pkgName := filepath.Base(filepath.Dir(f))
		pkgPath := map[string]string{"util": "github.com/0chain/common/core/util", "wmpt": "github.com/0chain/common/core/util/wmpt", "statecache": "github.com/0chain/common/core/statecache", "logging": "github.com/0chain/common/core/logging", "currency": "github.com/0chain/common/core/currency", "encryption": "github.com/0chain/common/core/encryption"}[pkgName]
		if pkgPath == "" {
			continue
		}
		boundToFinding := false
		for _, ln := range strings.Split(string(data), "\n") {
			ln = strings.TrimSpace(ln)
			if !strings.HasPrefix(ln, "// obligation:") {
				continue
			}
			parts := strings.SplitN(strings.TrimSpace(strings.TrimPrefix(ln, "// obligation:")), "=>", 2)
			for _, k := range known {
				if k.kind == "finding" && len(parts) == 2 && strings.HasPrefix(k.obl, strings.TrimSpace(parts[0])) {
					boundToFinding = true
				}
			}
		}
		out, _ := runTestOverlay(filepath.Join(outDir(), "work", "witnesses"), pkgPath, string(data), "zz_gocv_witness_test.go", "^TestGocvWitness")
		loud := ""
		for _, ol := range strings.Split(out, "\n") {
			if strings.Contains(ol, "GOCV-PANIC") || strings.Contains(ol, "GOCV-FAIL") || strings.Contains(ol, "DATA RACE") || strings.Contains(ol, "[build failed]") || strings.Contains(ol, "[setup failed]") {
				loud = strings.TrimSpace(ol)
				break
			}
		}
		switch {
		case loud == "":
			fmt.Printf("witness %s/%s: quiet\n", pkgName, filepath.Base(f))
		case boundToFinding:
			fmt.Printf("witness %s/%s: reproduces a recorded known finding: %s\n", pkgName, filepath.Base(f), loud)
		default:
			fmt.Printf("witness %s/%s: LOUD on this tree: %s\n", pkgName, filepath.Base(f), loud)
			rc = 1
		}
	}
	return rc
}

// cmdParams prints, for every repository function under contract, the Go parameter names in order
// (receiver first): used by tools/positional_params.py to write the names into the contract heads.
func cmdParams() int {
	os.MkdirAll(filepath.Join(outDir(), "work"), 0o755)
	eng, err := LoadEngine(filepath.Join(outDir(), "work"), []string{"./..."})
	if err != nil {
		fmt.Fprintln(os.Stderr, err)
		return 2
	}
	for _, k := range eng.cs.Order {
		fc := eng.cs.Funcs[k]
		if fc.Extern {
			continue
		}
		fn := eng.findFunc(fc.Pkg, fc.Key)
		if fn == nil {
			continue
		}
		var names []string
		ok := true
		for _, p := range fn.Params {
			if p.Name() == "" || p.Name() == "_" {
				ok = false
			}
			names = append(names, p.Name())
		}
		if ok {
			loc := ""
			if len(fc.Loops) > 0 {
				loc = strings.Join(declaredLocals(fn), ", ")
			}
			fmt.Printf("%s\t%d\t%s\t%s\t%s\n", fc.File, fc.Line, fc.Key, strings.Join(names, ", "), loc)
		}
	}
	return 0
}
