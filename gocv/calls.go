package main

// Calls: builtins, intrinsics, contracts (requires checked, frame havoc'd, ensures assumed),
// inlining of uncontracted repository functions, closed-world interface dispatch.

import (
	"fmt"
	"go/types"
	"sort"
	"strings"

	"golang.org/x/tools/go/ssa"
)

type callCont func(s *State, res Val)

const maxInlineDepth = 4

func (x *Exec) doCall(s *State, in ssa.Instruction, c *ssa.CallCommon, k callCont) {
	fr := s.top()
	var args []Val
	for _, a := range c.Args {
		v, err := x.lookupVal(s, fr, a)
		if err != nil {
			x.abort(err.Error())
			return
		}
		args = append(args, v)
		if _, isB := c.Value.(*ssa.Builtin); !isB {
			s.noteEscape(v)
		}
	}
	var fv Val
	if _, isB := c.Value.(*ssa.Builtin); !isB {
		v, err := x.lookupVal(s, fr, c.Value)
		if err != nil {
			x.abort(err.Error())
			return
		}
		fv = v
	}
	x.doCallWith(s, in, c, args, fv, k)
}

func (x *Exec) siteName(s *State, in ssa.Instruction) string {
	fr := s.top()
	n := x.instrNames(fr.fn)[in]
	if fr.depth > 0 {
		n = x.fnName(fr.fn) + ":" + n
	}
	return n
}

func (x *Exec) doCallWith(s *State, in ssa.Instruction, c *ssa.CallCommon, args []Val, fv Val, k callCont) {
	if c.IsInvoke() {
		x.invoke(s, in, c, fv, args, k)
		return
	}
	switch callee := c.Value.(type) {
	case *ssa.Builtin:
		res, err := x.builtin(s, in, callee, c, args)
		if err != nil {
			if ap, ok := err.(*abortPath); ok {
				if ap.reason != "" {
					x.abort(ap.reason)
				}
				return
			}
			x.abort(fmt.Sprintf("%s: builtin %s: %v", x.fnName(s.top().fn), callee.Name(), err))
			return
		}
		k(s, res)
		return
	case *ssa.Function:
		x.staticCall(s, in, callee, args, nil, k)
		return
	}
	if fv.Fn != nil {
		x.staticCall(s, in, fv.Fn, args, fv.Bindings, k)
		return
	}
	// dynamic call through a function value
	sig := c.Signature()
	x.uncontracted["dynamic call "+x.siteName(s, in)] = true
	x.havocAll(s)
	k(s, x.freshResults(s, sig, "dyn"))
}

func (x *Exec) havocAll(s *State) {
	for key := range x.heapSorts {
		x.heapHavoc(s, key)
	}
	na := Var(x.eng.fresh("alloc"), SInt)
	s.assume(ILe(s.alloc, na))
	s.alloc = na
}

func (x *Exec) freshResults(s *State, sig *types.Signature, hint string) Val {
	rs := sig.Results()
	mk := func(i int) Val {
		t := rs.At(i).Type()
		v := Var(x.eng.fresh("r$"+cleanName(hint)), x.sortOf(t))
		s.assume(x.eng.typeInv(v, t, x.mode, nil))
		return tv(v, t)
	}
	switch rs.Len() {
	case 0:
		return Val{}
	case 1:
		return mk(0)
	}
	var tup []Val
	for i := 0; i < rs.Len(); i++ {
		tup = append(tup, mk(i))
	}
	return Val{Tup: tup}
}

func (e *Engine) contractOf(f *ssa.Function) *FuncContract {
	if f == nil {
		return nil
	}
	if f.Pkg != nil {
		if fc, ok := e.cs.Funcs[f.Pkg.Pkg.Path()+"::"+f.RelString(f.Pkg.Pkg)]; ok {
			return fc
		}
	}
	if fc, ok := e.cs.Funcs[f.String()]; ok {
		return fc
	}
	return nil
}

func (x *Exec) contractFor(f *ssa.Function) *FuncContract { return x.eng.contractOf(f) }

func (x *Exec) onStack(s *State, f *ssa.Function) bool {
	for _, fr := range s.frames {
		if fr.fn == f {
			return true
		}
	}
	return false
}

var pureExternPrefixes = []string{
	"fmt.Sprintf", "fmt.Errorf", "fmt.Sprint", "fmt.Sprintln", "errors.New", "errors.Is", "errors.As", "strconv.", "strings.",
	"math.", "(*go.uber.org/zap.Logger).", "go.uber.org/zap.", "(*go.uber.org/zap.SugaredLogger).", "time.Now", "time.Since", "(time.Time).", "(time.Duration).",
	"fmt.Println", "fmt.Printf", "fmt.Print", "log.Print", "unicode.", "unicode/utf8.", "bytes.Equal", "bytes.Compare", "bytes.HasPrefix", "bytes.IndexByte", "bytes.Index",
	"encoding/hex.EncodeToString", "encoding/hex.EncodedLen", "encoding/hex.DecodedLen", "github.com/0chain/common/core/common.NewError",
	"runtime.", "runtime/debug.", "(*sync.WaitGroup).", "context.", "github.com/tinylib/msgp/msgp.",
}

func isPureExtern(name string) bool {
	for _, p := range pureExternPrefixes {
		if strings.HasPrefix(name, p) {
			return true
		}
	}
	return false
}

func (x *Exec) staticCall(s *State, in ssa.Instruction, f *ssa.Function, args []Val, bindings []Val, k callCont) {
	name := f.String()
	if h, ok := intrinsics[name]; ok {
		res, err := h(x, s, in, f, args)
		if err != nil {
			x.abort(fmt.Sprintf("%s: %v", name, err))
			return
		}
		k(s, res)
		return
	}
	fc := x.contractFor(f)
	if fc != nil && !fc.Inline {
		x.applyContract(s, in, f, fc, args, k)
		return
	}
	hasBody := len(f.Blocks) > 0
	depth := s.top().depth
	if hasBody && (x.eng.inRepo(pkgOf(f)) || fc != nil && fc.Inline) && depth < maxInlineDepth && !x.onStack(s, f) {
		x.inlined[x.fnName(f)] = true
		x.inline(s, f, args, bindings, k)
		return
	}
	// no contract, no body to inline
	if isPureExtern(name) {
		k(s, x.freshResults(s, f.Signature, f.Name()))
		return
	}
	x.uncontracted[name] = true
	if hasBody && x.eng.inRepo(pkgOf(f)) {
		keys, all := x.modifiedHeaps(f, nil)
		if all {
			x.havocAll(s)
		} else {
			for key := range keys {
				x.heapHavoc(s, key)
			}
			na := Var(x.eng.fresh("alloc"), SInt)
			s.assume(ILe(s.alloc, na))
			s.alloc = na
		}
	} else {
		x.havocAll(s)
	}
	k(s, x.freshResults(s, f.Signature, f.Name()))
}

func pkgOf(f *ssa.Function) *types.Package {
	if f.Pkg != nil {
		return f.Pkg.Pkg
	}
	if f.Object() != nil {
		return f.Object().Pkg()
	}
	if p := f.Parent(); p != nil {
		return pkgOf(p)
	}
	// synthetic wrappers: use receiver's package
	if recv := f.Signature.Recv(); recv != nil {
		t := recv.Type()
		if p, ok := t.(*types.Pointer); ok {
			t = p.Elem()
		}
		if n, ok := t.(*types.Named); ok {
			return n.Obj().Pkg()
		}
	}
	return nil
}

func (x *Exec) inline(s *State, f *ssa.Function, args []Val, bindings []Val, k callCont) {
	caller := s.top()
	fr := &Frame{fn: f, vals: map[ssa.Value]Val{}, vars: map[string]Val{}, visited: map[*ssa.BasicBlock]bool{}, depth: caller.depth + 1}
	for i, p := range f.Params {
		if i < len(args) {
			v := args[i]
			v.GoT = p.Type()
			fr.vals[p] = v
			fr.vars[p.Name()] = v
		}
	}
	for i, fv := range f.FreeVars {
		if i < len(bindings) {
			fr.vals[fv] = bindings[i]
		}
	}
	s.frames = append(s.frames, fr)
	nres := f.Signature.Results().Len()
	x.runBlock(s, f.Blocks[0], nil, func(s2 *State, results []Val) {
		s2.frames = s2.frames[:len(s2.frames)-1]
		switch nres {
		case 0:
			k(s2, Val{})
		case 1:
			k(s2, results[0])
		default:
			k(s2, Val{Tup: results})
		}
	})
}

// ---------- contracts at call sites ----------

func (x *Exec) paramNames(f *ssa.Function, fc *FuncContract) []string {
	var names []string
	if len(f.Params) > 0 {
		if fc != nil && !fc.Extern && len(fc.Params) == len(f.Params) {
			// the contract names its parameters positionally
			for _, p := range fc.Params {
				names = append(names, p.Name)
			}
			return names
		}
		for _, p := range f.Params {
			names = append(names, p.Name())
		}
		return names
	}
	if len(fc.Params) > 0 {
		for _, p := range fc.Params {
			names = append(names, p.Name)
		}
		return names
	}
	sig := f.Signature
	if sig.Recv() != nil {
		n := sig.Recv().Name()
		if n == "" || n == "_" {
			n = "recv"
		}
		names = append(names, n)
	}
	for i := 0; i < sig.Params().Len(); i++ {
		n := sig.Params().At(i).Name()
		if n == "" || n == "_" {
			n = fmt.Sprintf("arg%d", i)
		}
		names = append(names, n)
	}
	return names
}

func (x *Exec) paramTypes(f *ssa.Function) []types.Type {
	var ts []types.Type
	sig := f.Signature
	if sig.Recv() != nil {
		ts = append(ts, sig.Recv().Type())
	}
	for i := 0; i < sig.Params().Len(); i++ {
		ts = append(ts, sig.Params().At(i).Type())
	}
	return ts
}

func (x *Exec) resultNames(f *ssa.Function, fc *FuncContract) []string {
	rs := f.Signature.Results()
	names := make([]string, rs.Len())
	for i := 0; i < rs.Len(); i++ {
		names[i] = rs.At(i).Name()
		if fc != nil && i < len(fc.Results) {
			names[i] = fc.Results[i]
		}
		if names[i] == "" || names[i] == "_" {
			names[i] = fmt.Sprintf("result%d", i)
			if rs.Len() == 1 {
				names[i] = "result"
			}
		}
	}
	return names
}

func (x *Exec) applyContract(s *State, in ssa.Instruction, f *ssa.Function, fc *FuncContract, args []Val, k callCont) {
	x.contractsUsed[x.fnName(f)] = true
	pn := x.paramNames(f, fc)
	pt := x.paramTypes(f)
	env := map[string]Val{}
	for i, n := range pn {
		if i < len(args) {
			v := args[i]
			if i < len(pt) {
				v.GoT = pt[i]
			}
			env[n] = v
		}
	}
	site := x.siteName(s, in)
	callee := x.fnName(f)
	if fc.Extern {
		callee = fc.Key
	}
	if f == x.fn {
		x.checkDecreases(s, fc, env, site, f)
	}
	x.checkReacquire(s, f, args, site)
	for _, h := range fc.Holds {
		id, err := x.lockIDOfExpr(s, h.E, env, pkgOf(f))
		if err != nil {
			x.abort(fmt.Sprintf("holds of %s at %s: %v", callee, site, err))
			return
		}
		held := s.locks[id]
		ok := held == "W" || (h.Mode == "R" && held == "R")
		goal := TTrue
		if !ok {
			goal = TFalse
		}
		x.emit(s, "lock", "holds:"+callee+"#"+h.Text+"@"+site, goal, fmt.Sprintf("callee needs %s held (%s); held: %q", h.Text, h.Mode, held))
	}
	pre := &SpecEnv{x: x, s: s, names: env, fnPkg: pkgOf(f)}
	if recv := f.Signature.Recv(); recv != nil && len(args) > 0 && args[0].T != nil && fc.Opts["nilrecv"] == "" {
		if _, isPtr := recv.Type().Underlying().(*types.Pointer); isPtr && args[0].T.Sort == SInt {
			x.check(s, "requires", "pre:"+callee+"#recv-nonnil@"+site, Not(Eq(args[0].T, IntLit(0))), "method called on a nil receiver")
		}
	}
	for _, rq := range fc.Requires {
		t, err := pre.boolExpr(rq.E)
		if err != nil {
			x.abort(fmt.Sprintf("requires %s of %s at %s: %v", rq.Name, callee, site, err))
			return
		}
		x.check(s, "requires", "pre:"+callee+"#"+rq.Name+"@"+site, t, rq.Text)
	}
	// snapshot pre-state
	oldHeap := map[string]*Term{}
	for key, v := range s.heap {
		oldHeap[key] = v
	}
	oldAlloc := s.alloc
	// frame
	switch {
	case fc.Pure:
	case fc.HasAssign:
		// all locations denote pre-state objects: evaluate them before any of them is havoc'd
		var all []assignLoc
		for _, a := range fc.Assigns {
			locs, err := pre.assignLocs(a.E)
			if err != nil {
				x.abort(fmt.Sprintf("assigns of %s at %s: %v", callee, site, err))
				return
			}
			all = append(all, locs...)
		}
		for _, l := range all {
			x.havocLoc(s, l)
			// the caller's own frame must allow it
			x.noteWrite(s, l.key, l.ref)
		}
	default:
		if len(f.Blocks) > 0 {
			keys, all := x.modifiedHeaps(f, nil)
			if all {
				x.havocAll(s)
			} else {
				for key := range keys {
					x.heapHavoc(s, key)
				}
			}
		} else {
			x.havocAll(s)
		}
	}
	if !fc.Pure {
		na := Var(x.eng.fresh("alloc"), SInt)
		s.assume(ILe(s.alloc, na))
		s.alloc = na
	}
	// results
	rn := x.resultNames(f, fc)
	rs := f.Signature.Results()
	var results []Val
	for i := 0; i < rs.Len(); i++ {
		t := rs.At(i).Type()
		v := Var(x.eng.fresh("r$"+cleanName(f.Name())+"$"+rn[i]), x.sortOf(t))
		x.assumeTyped(s, v, t)
		results = append(results, tv(v, t))
	}
	post := &SpecEnv{x: x, s: s, names: map[string]Val{}, fnPkg: pkgOf(f)}
	for n, v := range env {
		post.names[n] = v
	}
	for i, n := range rn {
		post.names[n] = results[i]
	}
	post.old = &SpecEnv{x: x, s: s, names: env, heap: oldHeap, alloc: oldAlloc, fnPkg: pkgOf(f)}
	post.entryAlloc = oldAlloc
	for _, en := range fc.Ensures {
		t, err := post.boolExpr(en.E)
		if err != nil {
			x.abort(fmt.Sprintf("ensures %s of %s at %s: %v", en.Name, callee, site, err))
			return
		}
		s.assume(t)
	}
	switch len(results) {
	case 0:
		k(s, Val{})
	case 1:
		k(s, results[0])
	default:
		k(s, Val{Tup: results})
	}
}

func (x *Exec) havocLoc(s *State, l assignLoc) {
	srt, ok := x.heapSorts[l.key]
	if !ok {
		if l.sort == "" {
			return
		}
		srt = l.sort
		x.heapGet(s, l.key, srt)
	}
	if l.ref == nil {
		x.heapHavoc(s, l.key)
		return
	}
	h := s.heap[l.key]
	if h == nil {
		h = x.heapGet(s, l.key, srt)
	}
	_, es := arrParts(srt)
	nv := Var(x.eng.fresh("hv$"+l.key), es)
	x.heapSet(s, l.key, Store(h, l.ref, nv))
}

// noteWrite: frame obligation for the function under verification.
func (x *Exec) noteWrite(s *State, key string, ref *Term) {
	if !x.checkFrames {
		return
	}
	if strings.HasPrefix(key, "G$") && ref == nil {
		for _, l := range x.assignLocs {
			if l.key == key || l.key == "*" {
				return
			}
		}
		x.emit(s, "frame", "frame:"+key, TFalse, "write to global not listed in assigns")
		return
	}
	var alts []*Term
	if ref != nil {
		alts = append(alts, ILe(x.entryAlloc, ref))
		// index 0 is the nil reference: no object lives there (a store through nil is a separate
		// safety obligation); an assigns item such as p.f.g with p.f == nil denotes it
		alts = append(alts, Eq(ref, IntLit(0)))
	}
	for _, l := range x.assignLocs {
		if l.key == "*" {
			return
		}
		if l.key != key {
			continue
		}
		if l.ref == nil {
			return
		}
		if ref != nil {
			alts = append(alts, Eq(ref, l.ref))
		}
	}
	x.emit(s, "frame", "frame:"+key, Or(alts...), "write outside the assigns clause")
}

// ---------- modified heap components (syntactic, transitive) ----------

var modCache = map[*ssa.Function]struct {
	keys map[string]bool
	all  bool
}{}

func (x *Exec) modifiedHeaps(fn *ssa.Function, blocks map[*ssa.BasicBlock]bool) (map[string]bool, bool) {
	return x.modHeaps(fn, blocks, map[*ssa.Function]bool{})
}

func (x *Exec) modHeaps(fn *ssa.Function, blocks map[*ssa.BasicBlock]bool, visiting map[*ssa.Function]bool) (map[string]bool, bool) {
	if blocks == nil {
		if c, ok := modCache[fn]; ok {
			return c.keys, c.all
		}
		if visiting[fn] {
			return map[string]bool{}, false
		}
		visiting[fn] = true
		defer delete(visiting, fn)
	}
	keys := map[string]bool{}
	all := false
	addLoc := func(addr ssa.Value) {
		for _, k := range x.staticKeys(addr) {
			if k == "*" {
				all = true
			} else {
				keys[k] = true
			}
		}
	}
	for _, b := range fn.Blocks {
		if blocks != nil && !blocks[b] {
			continue
		}
		for _, in := range b.Instrs {
			switch in := in.(type) {
			case *ssa.Store:
				addLoc(in.Addr)
			case *ssa.MapUpdate:
				mt := in.Map.Type().Underlying().(*types.Map)
				hk, vk, lk := x.mapKeys(mt)
				keys[hk], keys[vk], keys[lk] = true, true, true
			case *ssa.Alloc:
				// zero-initialisation of the new cell
				elem := in.Type().(*types.Pointer).Elem()
				for _, k := range x.cellKeys(elem) {
					keys[k] = true
				}
			case *ssa.MakeSlice:
				keys[x.elemKey(in.Type().Underlying().(*types.Slice).Elem())] = true
			case *ssa.MakeMap:
				mt := in.Type().Underlying().(*types.Map)
				hk, vk, lk := x.mapKeys(mt)
				keys[hk], keys[vk], keys[lk] = true, true, true
			case *ssa.Convert:
				if sl, ok := in.Type().Underlying().(*types.Slice); ok && isString(in.X.Type()) {
					keys[x.elemKey(sl.Elem())] = true
				}
			case ssa.CallInstruction:
				c := in.Common()
				if c.IsInvoke() {
					impls := x.eng.implementers(c.Value.Type())
					ifc := x.ifaceContract(c)
					// an interface-level contract is what a call through the interface is checked against
					// (unless it opts into devirtualisation, where the implementation's contract may apply)
					if !x.eng.closedIface(c.Value.Type()) || len(impls) == 0 || (ifc != nil && (ifc.Pure || ifc.HasAssign) && ifc.Opts["devirt"] == "") {
						if fc := ifc; fc != nil && (fc.Pure || fc.HasAssign) {
							for _, k := range x.assignKeysStatic(fc, nil) {
								if k == "*" {
									all = true
								} else {
									keys[k] = true
								}
							}
							continue
						}
						all = true
						continue
					}
					for _, impl := range impls {
						m := x.eng.prog.LookupMethod(impl, c.Method.Pkg(), c.Method.Name())
						if m == nil {
							all = true
							continue
						}
						ks, a := x.calleeMods(m, visiting)
						for k := range ks {
							keys[k] = true
						}
						all = all || a
					}
					continue
				}
				switch callee := c.Value.(type) {
				case *ssa.Builtin:
					switch callee.Name() {
					case "append", "copy":
						if sl, ok := c.Args[0].Type().Underlying().(*types.Slice); ok {
							keys[x.elemKey(sl.Elem())] = true
						}
					case "delete", "clear":
						if mt, ok := c.Args[0].Type().Underlying().(*types.Map); ok {
							hk, vk, lk := x.mapKeys(mt)
							keys[hk], keys[vk], keys[lk] = true, true, true
						}
					}
				case *ssa.Function:
					if _, isIntr := intrinsics[callee.String()]; isIntr {
						name := callee.String()
						switch {
						case strings.HasPrefix(name, "sync/atomic.") && len(c.Args) > 0:
							addLoc(c.Args[0])
						case strings.Contains(name, "Unmarshal"):
							if t := pointeeOfIfaceArg(in); t != nil {
								for _, k := range x.cellKeys(t) {
									keys[k] = true
								}
							}
						}
						continue
					}
					ks, a := x.calleeMods(callee, visiting)
					for k := range ks {
						keys[k] = true
					}
					all = all || a
				case *ssa.MakeClosure:
					ks, a := x.calleeMods(callee.Fn.(*ssa.Function), visiting)
					for k := range ks {
						keys[k] = true
					}
					all = all || a
				default:
					all = true
				}
			}
		}
	}
	if blocks == nil {
		modCache[fn] = struct {
			keys map[string]bool
			all  bool
		}{keys, all}
	}
	return keys, all
}

func (x *Exec) calleeMods(f *ssa.Function, visiting map[*ssa.Function]bool) (map[string]bool, bool) {
	name := f.String()
	if _, ok := intrinsics[name]; ok {
		return intrinsicMods(x, name, f), false
	}
	fc := x.contractFor(f)
	if fc != nil && fc.Pure {
		return nil, false
	}
	if fc != nil && fc.HasAssign {
		ks := x.assignKeysStatic(fc, f)
		out := map[string]bool{}
		for _, k := range ks {
			if k == "*" {
				return nil, true
			}
			out[k] = true
		}
		return out, false
	}
	if len(f.Blocks) > 0 && x.eng.inRepo(pkgOf(f)) {
		return x.modHeaps(f, nil, visiting)
	}
	if isPureExtern(name) {
		return nil, false
	}
	return nil, true
}

// cellKeys: heap components that make up a cell of the given type.
func (x *Exec) cellKeys(elem types.Type) []string {
	if st, ok := structOf(elem); ok && !x.eng.opaqueStruct(elem) {
		var ks []string
		for i := 0; i < st.NumFields(); i++ {
			ks = append(ks, x.fieldKey(elem, st, i))
		}
		return ks
	}
	if at, ok := elem.Underlying().(*types.Array); ok {
		return []string{x.elemKey(at.Elem())}
	}
	return []string{x.cellKey(elem)}
}

// cellSortOf: sort of the heap component `key` that holds (part of) a cell of type elem.
func (x *Exec) cellSortOf(key string, elem types.Type) string {
	if st, ok := structOf(elem); ok && !x.eng.opaqueStruct(elem) {
		for i := 0; i < st.NumFields(); i++ {
			if x.fieldKey(elem, st, i) == key {
				return SArr(SInt, x.sortOf(st.Field(i).Type()))
			}
		}
	}
	if at, ok := elem.Underlying().(*types.Array); ok {
		return SArr(SInt, SArr(SInt, x.sortOf(at.Elem())))
	}
	return SArr(SInt, x.sortOf(elem))
}

// staticKeys: heap components an address value may point into.
func (x *Exec) staticKeys(addr ssa.Value) []string {
	switch a := addr.(type) {
	case *ssa.FieldAddr:
		styp := a.X.Type().Underlying().(*types.Pointer).Elem()
		st := styp.Underlying().(*types.Struct)
		// nested struct value: the write lands in the outermost pointer-addressed field
		if inner, ok := a.X.(*ssa.FieldAddr); ok {
			return x.staticKeys(inner)
		}
		if inner, ok := a.X.(*ssa.IndexAddr); ok {
			return x.staticKeys(inner)
		}
		return []string{x.fieldKey(styp, st, a.Field)}
	case *ssa.IndexAddr:
		switch u := a.X.Type().Underlying().(type) {
		case *types.Slice:
			return []string{x.elemKey(u.Elem())}
		case *types.Pointer:
			if inner, ok := a.X.(*ssa.FieldAddr); ok {
				return x.staticKeys(inner)
			}
			at := u.Elem().Underlying().(*types.Array)
			return []string{x.elemKey(at.Elem())}
		}
	case *ssa.Global:
		return []string{x.globalKey(a)}
	}
	if p, ok := addr.Type().Underlying().(*types.Pointer); ok {
		return x.cellKeys(p.Elem())
	}
	return []string{"*"}
}

// assignKeysStatic: heap components named by an assigns clause, resolved from declared types.
func (x *Exec) assignKeysStatic(fc *FuncContract, f *ssa.Function) []string {
	if fc.Pure || (fc.HasAssign && len(fc.Assigns) == 0) {
		return nil
	}
	var out []string
	var names []string
	var typs []types.Type
	if f != nil {
		names = x.paramNames(f, fc)
		typs = x.paramTypes(f)
	}
	typeOf := func(e *Expr) types.Type {
		var rec func(e *Expr) types.Type
		rec = func(e *Expr) types.Type {
			switch e.Kind {
			case eIdent:
				for i, n := range names {
					if n == e.Name && i < len(typs) {
						return typs[i]
					}
				}
			case eField:
				bt := rec(e.Args[0])
				if bt == nil {
					return nil
				}
				if p, ok := bt.Underlying().(*types.Pointer); ok {
					bt = p.Elem()
				}
				if st, ok := bt.Underlying().(*types.Struct); ok {
					for i := 0; i < st.NumFields(); i++ {
						if st.Field(i).Name() == e.Name {
							return st.Field(i).Type()
						}
					}
				}
			}
			return nil
		}
		return rec(e)
	}
	for _, a := range fc.Assigns {
		e := a.E
		switch {
		case e.Kind == eIdent && e.Name == "everything":
			return []string{"*"}
		case e.Kind == eCall && e.Name == "elems" && len(e.Args) == 1:
			t := typeOf(e.Args[0])
			if sl, ok := t.Underlying().(*types.Slice); t != nil && ok {
				out = append(out, x.elemKey(sl.Elem()))
			} else {
				return []string{"*"}
			}
		case e.Kind == eCall && e.Name == "heap" && len(e.Args) == 1:
			out = append(out, x.heapKeyFromText(e.Args[0]))
		case e.Kind == eCall && e.Name == "ghost" && len(e.Args) == 1 && e.Args[0].Kind == eIdent:
			out = append(out, "X$"+e.Args[0].Name)
		case e.Kind == eCall && e.Name == "mapof" && len(e.Args) == 1:
			t := typeOf(e.Args[0])
			if mt, ok := t.Underlying().(*types.Map); t != nil && ok {
				hk, vk, lk := x.mapKeys(mt)
				out = append(out, hk, vk, lk)
			} else {
				return []string{"*"}
			}
		case e.Kind == eField:
			bt := typeOf(e.Args[0])
			if bt == nil {
				return []string{"*"}
			}
			if p, ok := bt.Underlying().(*types.Pointer); ok {
				bt = p.Elem()
			}
			st, ok := bt.Underlying().(*types.Struct)
			if !ok {
				return []string{"*"}
			}
			found := false
			for i := 0; i < st.NumFields(); i++ {
				if st.Field(i).Name() == e.Name || e.Name == "$all" {
					out = append(out, x.fieldKey(bt, st, i))
					found = true
				}
			}
			if !found {
				return []string{"*"}
			}
		case e.Kind == eIndex && e.Args[0].Kind == eIdent && x.eng.cs.Ghost[e.Args[0].Name] != "":
			out = append(out, "X$"+e.Args[0].Name)
		case e.Kind == eUn && e.Op == "*":
			t := typeOf(e.Args[0])
			if t == nil {
				return []string{"*"}
			}
			pt, ok := t.Underlying().(*types.Pointer)
			if !ok {
				return []string{"*"}
			}
			out = append(out, x.cellKeys(pt.Elem())...)
		default:
			return []string{"*"}
		}
	}
	sort.Strings(out)
	return out
}

func (x *Exec) heapKeyFromTextPkg(e *Expr, pkg *types.Package) string {
	if e.Kind == eField && e.Args[0].Kind == eIdent && pkg != nil {
		return "F$" + pkg.Name() + "." + e.Args[0].Name + "$" + e.Name
	}
	return x.heapKeyFromText(e)
}

func (x *Exec) heapKeyFromText(e *Expr) string {
	// heap(Type.field) -> "F$pkg.Type$field" for a type of the function's package
	if e.Kind == eField && e.Args[0].Kind == eIdent {
		return "F$" + x.fn.Pkg.Pkg.Name() + "." + e.Args[0].Name + "$" + e.Name
	}
	return "*"
}

func (x *Exec) ifaceContract(c *ssa.CallCommon) *FuncContract {
	t := c.Value.Type()
	n, ok := t.(*types.Named)
	if !ok {
		return nil
	}
	pkg := ""
	if n.Obj().Pkg() != nil {
		pkg = n.Obj().Pkg().Path()
	}
	if fc, ok := x.eng.cs.Funcs[pkg+"::("+n.Obj().Name()+")."+c.Method.Name()]; ok {
		return fc
	}
	if fc, ok := x.eng.cs.Funcs["("+pkg+"."+n.Obj().Name()+")."+c.Method.Name()]; ok {
		return fc
	}
	// an interface of another package, contracted in a using package's file as (pkgname.Iface).Method
	if n.Obj().Pkg() != nil {
		suffix := "::(" + n.Obj().Pkg().Name() + "." + n.Obj().Name() + ")." + c.Method.Name()
		for _, k := range x.eng.cs.Order {
			if strings.HasSuffix(k, suffix) {
				return x.eng.cs.Funcs[k]
			}
		}
	}
	return nil
}

// ---------- interface method calls ----------

func (x *Exec) invoke(s *State, in ssa.Instruction, c *ssa.CallCommon, recv Val, args []Val, k callCont) {
	site := x.siteName(s, in)
	x.check(s, "safety", "nil:"+site, Not(Eq(ifTag(recv.T), IntLit(0))), "method call on nil interface")
	if h, ok := intrinsics["("+c.Value.Type().String()+")."+c.Method.Name()]; ok {
		res, err := h(x, s, in, nil, append([]Val{recv}, args...))
		if err != nil {
			x.abort(fmt.Sprintf("%s.%s: %v", c.Value.Type(), c.Method.Name(), err))
			return
		}
		k(s, res)
		return
	}
	if fc := x.ifaceContract(c); fc != nil && fc.Opts["devirt"] != "" {
		// prefer the implementation's own contract when the path condition pins the dynamic type to
		// exactly one implementer in the repository
		var only types.Type
		n := 0
		for _, impl := range x.eng.implementers(c.Value.Type()) {
			if x.feasible(s, Eq(ifTag(recv.T), IntLit(int64(x.eng.tagOf(impl))))) {
				only = impl
				n++
			}
		}
		if n == 1 && !x.feasible(s, Not(Eq(ifTag(recv.T), IntLit(int64(x.eng.tagOf(only)))))) {
			if m := x.eng.prog.LookupMethod(only, c.Method.Pkg(), c.Method.Name()); m != nil {
				var rv Val
				if isPointerLike(only) {
					rv = tv(ifVal(recv.T), only)
				} else {
					_, unbox, srt := x.eng.boxFuns(only, x.mode)
					rv = tv(App(unbox, srt, ifVal(recv.T)), only)
				}
				x.staticCall(s, in, m, append([]Val{rv}, args...), nil, k)
				return
			}
		}
	}
	if fc := x.ifaceContract(c); fc != nil {
		// interface-level contract: a synthetic function value carries the signature
		m := x.eng.prog.NewFunction(c.Method.Name(), c.Method.Type().(*types.Signature), "interface method")
		allArgs := append([]Val{recv}, args...)
		x.applyIfaceContract(s, in, m, fc, c, allArgs, k)
		return
	}
	impls := x.eng.implementers(c.Value.Type())
	if !x.eng.closedIface(c.Value.Type()) && len(impls) > 0 {
		// open interface: devirtualise when the path condition pins the dynamic type to repository types
		var others []*Term
		for _, impl := range impls {
			others = append(others, Not(Eq(ifTag(recv.T), IntLit(int64(x.eng.tagOf(impl))))))
		}
		if x.feasible(s, And(others...)) {
			impls = nil
		}
	}
	if len(impls) == 0 {
		sig := c.Method.Type().(*types.Signature)
		x.uncontracted["invoke "+c.Value.Type().String()+"."+c.Method.Name()] = true
		x.havocAll(s)
		k(s, x.freshResults(s, sig, c.Method.Name()))
		return
	}
	// closed-world dispatch: one path per implementer whose tag is feasible here
	var live []types.Type
	for _, impl := range impls {
		if x.feasible(s, Eq(ifTag(recv.T), IntLit(int64(x.eng.tagOf(impl))))) {
			live = append(live, impl)
		}
	}
	for i, impl := range live {
		m := x.eng.prog.LookupMethod(impl, c.Method.Pkg(), c.Method.Name())
		if m == nil {
			continue
		}
		s2 := s
		if i < len(live)-1 {
			s2 = s.clone()
		}
		x.paths++
		if x.paths > x.maxPaths {
			x.aborted = fmt.Sprintf("more than %d paths", x.maxPaths)
			return
		}
		s2.assume(Eq(ifTag(recv.T), IntLit(int64(x.eng.tagOf(impl)))))
		var rv Val
		if isPointerLike(impl) {
			rv = tv(ifVal(recv.T), impl)
		} else {
			_, unbox, srt := x.eng.boxFuns(impl, x.mode)
			rv = tv(App(unbox, srt, ifVal(recv.T)), impl)
		}
		x.staticCall(s2, in, m, append([]Val{rv}, args...), nil, k)
	}
}

func (x *Exec) applyIfaceContract(s *State, in ssa.Instruction, m *ssa.Function, fc *FuncContract, c *ssa.CallCommon, args []Val, k callCont) {
	// parameter names: receiver "self" then declared names
	sig := c.Method.Type().(*types.Signature)
	names := []string{"self"}
	if len(fc.Params) > 0 {
		names = nil
		for _, p := range fc.Params {
			names = append(names, p.Name)
		}
	} else {
		for i := 0; i < sig.Params().Len(); i++ {
			n := sig.Params().At(i).Name()
			if n == "" {
				n = fmt.Sprintf("arg%d", i)
			}
			names = append(names, n)
		}
	}
	fc2 := *fc
	fc2.Params = nil
	for _, n := range names {
		fc2.Params = append(fc2.Params, ParamDecl{Name: n})
	}
	// build a body-less function whose signature has no receiver; args[0] is the interface value
	x.applyContractRaw(s, in, c.Value.Type().String()+"."+c.Method.Name(), sig, &fc2, names, append([]types.Type{c.Value.Type()}, tupleTypes(sig.Params())...), args, k)
}

func tupleTypes(t *types.Tuple) []types.Type {
	var out []types.Type
	for i := 0; i < t.Len(); i++ {
		out = append(out, t.At(i).Type())
	}
	return out
}

// applyContractRaw is applyContract without an ssa.Function (interface methods).
func (x *Exec) applyContractRaw(s *State, in ssa.Instruction, callee string, sig *types.Signature, fc *FuncContract, pn []string, pt []types.Type, args []Val, k callCont) {
	x.contractsUsed[callee] = true
	var ipkg *types.Package
	if len(pt) > 0 {
		if n, ok := pt[0].(*types.Named); ok {
			ipkg = n.Obj().Pkg()
		}
	}
	if ipkg == nil || !x.eng.inRepo(ipkg) {
		ipkg = pkgOf(s.top().fn)
	}
	env := map[string]Val{}
	for i, n := range pn {
		if i < len(args) {
			v := args[i]
			if i < len(pt) {
				v.GoT = pt[i]
			}
			env[n] = v
		}
	}
	site := x.siteName(s, in)
	pre := &SpecEnv{x: x, s: s, names: env, fnPkg: ipkg}
	for _, rq := range fc.Requires {
		t, err := pre.boolExpr(rq.E)
		if err != nil {
			x.abort(fmt.Sprintf("requires %s of %s at %s: %v", rq.Name, callee, site, err))
			return
		}
		x.check(s, "requires", "pre:"+callee+"#"+rq.Name+"@"+site, t, rq.Text)
	}
	oldHeap := map[string]*Term{}
	for key, v := range s.heap {
		oldHeap[key] = v
	}
	oldAlloc := s.alloc
	switch {
	case fc.Pure:
	case fc.HasAssign:
		var all []assignLoc
		for _, a := range fc.Assigns {
			locs, err := pre.assignLocs(a.E)
			if err != nil {
				x.abort(fmt.Sprintf("assigns of %s at %s: %v", callee, site, err))
				return
			}
			all = append(all, locs...)
		}
		for _, l := range all {
			x.havocLoc(s, l)
			x.noteWrite(s, l.key, l.ref)
		}
	default:
		x.havocAll(s)
	}
	if !fc.Pure {
		na := Var(x.eng.fresh("alloc"), SInt)
		s.assume(ILe(s.alloc, na))
		s.alloc = na
	}
	rs := sig.Results()
	var results []Val
	post := &SpecEnv{x: x, s: s, names: map[string]Val{}, fnPkg: ipkg}
	for n, v := range env {
		post.names[n] = v
	}
	for i := 0; i < rs.Len(); i++ {
		t := rs.At(i).Type()
		v := Var(x.eng.fresh("r$"+cleanName(callee)), x.sortOf(t))
		x.assumeTyped(s, v, t)
		results = append(results, tv(v, t))
		n := rs.At(i).Name()
		if i < len(fc.Results) {
			n = fc.Results[i]
		}
		if n == "" {
			n = "result"
			if rs.Len() > 1 {
				n = fmt.Sprintf("result%d", i)
			}
		}
		post.names[n] = results[i]
	}
	post.old = &SpecEnv{x: x, s: s, names: env, heap: oldHeap, alloc: oldAlloc, fnPkg: ipkg}
	post.entryAlloc = oldAlloc
	for _, en := range fc.Ensures {
		t, err := post.boolExpr(en.E)
		if err != nil {
			x.abort(fmt.Sprintf("ensures %s of %s at %s: %v", en.Name, callee, site, err))
			return
		}
		s.assume(t)
	}
	switch len(results) {
	case 0:
		k(s, Val{})
	case 1:
		k(s, results[0])
	default:
		k(s, Val{Tup: results})
	}
}

// ---------- builtins ----------

func (x *Exec) builtin(s *State, in ssa.Instruction, b *ssa.Builtin, c *ssa.CallCommon, args []Val) (Val, error) {
	intT := types.Typ[types.Int]
	mkInt := func(t *Term) Val { return tv(x.fromInt(t, intT), intT) }
	switch b.Name() {
	case "len", "cap":
		a := args[0]
		switch u := c.Args[0].Type().Underlying().(type) {
		case *types.Slice:
			if b.Name() == "len" {
				return mkInt(slLen(a.T)), nil
			}
			return mkInt(slCap(a.T)), nil
		case *types.Basic:
			return mkInt(App("seq.len", SInt, a.T)), nil
		case *types.Array:
			return mkInt(IntLit(u.Len())), nil
		case *types.Pointer:
			return mkInt(IntLit(u.Elem().Underlying().(*types.Array).Len())), nil
		case *types.Map:
			_, _, ln := x.mapParts(s, u, a.T)
			r := x.name(s, "len$map", Ite(Eq(a.T, IntLit(0)), IntLit(0), ln))
			s.assume(ILe(IntLit(0), r))
			return mkInt(r), nil
		case *types.Chan:
			r := Var(x.eng.fresh("len$chan"), SInt)
			s.assume(ILe(IntLit(0), r))
			return mkInt(r), nil
		}
		return Val{}, fmt.Errorf("len of %s", c.Args[0].Type())
	case "append":
		return x.appendOp(s, in, c, args)
	case "copy":
		return x.copyOp(s, in, c, args)
	case "delete":
		mt := c.Args[0].Type().Underlying().(*types.Map)
		// delete on nil map is a no-op
		m := args[0].T
		x.mapStore(s, mt, m, args[1].T, nil, false)
		return Val{}, nil
	case "clear":
		mt, isMap := c.Args[0].Type().Underlying().(*types.Map)
		if !isMap {
			return Val{}, fmt.Errorf("clear of a slice")
		}
		// clear(m): no key is present any more, length 0 (a nil map stays nil: the writes land on the
		// unused slot 0 of the heap arrays, which no non-nil map reads)
		hk, _, lk := x.mapKeys(mt)
		ks := x.sortOf(mt.Key())
		H := x.heapGet(s, hk, SArr(SInt, SArr(ks, SBool)))
		L := x.heapGet(s, lk, SArr(SInt, SInt))
		empty := Var(x.eng.fresh("clear$has"), SArr(ks, SBool))
		kq := Var("k$clear", ks)
		s.assume(Forall([]*Term{kq}, Not(Select(empty, kq)), []*Term{Select(empty, kq)}))
		x.heapSet(s, hk, Store(H, args[0].T, empty))
		x.heapSet(s, lk, Store(L, args[0].T, IntLit(0)))
		x.noteWrite(s, hk, args[0].T)
		return Val{}, nil
	case "print", "println", "close":
		return Val{}, nil
	case "recover":
		return tv(nilIface, c.Signature().Results().At(0).Type()), nil
	case "min", "max":
		a, bb := args[0], args[1]
		if x.mode == "bv" || a.T.Sort != SInt {
			return Val{}, fmt.Errorf("min/max on %s", a.T.Sort)
		}
		if b.Name() == "min" {
			return tv(Ite(ILe(a.T, bb.T), a.T, bb.T), c.Args[0].Type()), nil
		}
		return tv(Ite(ILe(a.T, bb.T), bb.T, a.T), c.Args[0].Type()), nil
	case "ssa:wrapnilchk":
		x.check(s, "safety", "nil:"+x.siteName(s, in), Not(Eq(args[0].T, IntLit(0))), "nil receiver in method wrapper")
		return args[0], nil
	}
	return Val{}, fmt.Errorf("unsupported builtin %s", b.Name())
}

func (x *Exec) appendOp(s *State, in ssa.Instruction, c *ssa.CallCommon, args []Val) (Val, error) {
	st := c.Args[0].Type().Underlying().(*types.Slice)
	elem := st.Elem()
	es := x.sortOf(elem)
	key := x.elemKey(elem)
	E := x.heapGet(s, key, SArr(SInt, SArr(SInt, es)))
	a := args[0].T
	t := args[1].T
	srcIsStr := isString(c.Args[1].Type())
	var n *Term
	if srcIsStr {
		n = x.name(s, "app$n", App("seq.len", SInt, t))
	} else {
		n = slLen(t)
	}
	oldLen := slLen(a)
	newLen := x.name(s, "app$len", IAdd(oldLen, n))
	fits := x.name(s, "app$fits", ILe(newLen, slCap(a)))
	fresh := x.allocRef(s, "app$arr")
	capNew := Var(x.eng.fresh("app$cap"), SInt)
	s.assume(And(ILe(newLen, capNew), ILe(capNew, pow2(maxCapBits))))
	// appending nothing to a nil slice yields nil; model: keeps the slice as is when it fits
	resArr := x.name(s, "app$res", Ite(fits, slArr(a), fresh))
	resCap := Ite(fits, slCap(a), capNew)
	A := x.name(s, "app$old", Select(E, slArr(a)))
	base := IAdd(slOff(a), oldLen)
	var A2 *Term
	if k, ok := n.intLitVal(); ok && k.Int64() <= 8 && !srcIsStr {
		A2 = A
		T := Select(E, slArr(t))
		for j := int64(0); j < k.Int64(); j++ {
			A2 = Store(A2, IAdd(base, IntLit(j)), Select(T, IAdd(slOff(t), IntLit(j))))
		}
	} else {
		A2 = Var(x.eng.fresh("app$new"), SArr(SInt, es))
		j := Var("j$app", SInt)
		var src *Term
		if srcIsStr {
			src = App("seq.nth", SInt, t, ISub(j, base))
		} else {
			src = Select(Select(E, slArr(t)), IAdd(slOff(t), ISub(j, base)))
		}
		if es == src.Sort {
			s.assume(Forall([]*Term{j}, Eq(Select(A2, j), Ite(And(ILe(base, j), ILt(j, IAdd(base, n))), src, Select(A, j))),
				[]*Term{Select(A2, j)}))
		}
	}
	x.heapSet(s, key, Store(E, resArr, A2))
	// in-place append writes into the shared backing array: frame / ownership relevant
	if x.checkFrames {
		x.noteWrite(s, key, resArr)
	}
	res := mkSlice(resArr, slOff(a), newLen, resCap)
	return tv(res, c.Args[0].Type()), nil
}

func (x *Exec) copyOp(s *State, in ssa.Instruction, c *ssa.CallCommon, args []Val) (Val, error) {
	st := c.Args[0].Type().Underlying().(*types.Slice)
	elem := st.Elem()
	es := x.sortOf(elem)
	key := x.elemKey(elem)
	E := x.heapGet(s, key, SArr(SInt, SArr(SInt, es)))
	d := args[0].T
	src := args[1].T
	srcIsStr := isString(c.Args[1].Type())
	var sl *Term
	if srcIsStr {
		sl = App("seq.len", SInt, src)
	} else {
		sl = slLen(src)
	}
	n := x.name(s, "copy$n", Ite(ILe(slLen(d), sl), slLen(d), sl))
	A := x.name(s, "copy$old", Select(E, slArr(d)))
	A2 := Var(x.eng.fresh("copy$new"), SArr(SInt, es))
	j := Var("j$copy", SInt)
	base := slOff(d)
	var sv *Term
	if srcIsStr {
		sv = App("seq.nth", SInt, src, ISub(j, base))
	} else {
		sv = Select(Select(E, slArr(src)), IAdd(slOff(src), ISub(j, base)))
	}
	if es == sv.Sort {
		s.assume(Forall([]*Term{j}, Eq(Select(A2, j), Ite(And(ILe(base, j), ILt(j, IAdd(base, n))), sv, Select(A, j))),
			[]*Term{Select(A2, j)}))
	}
	// copy into a nil/empty destination writes nothing
	x.heapSet(s, key, Ite(ILt(IntLit(0), n), Store(E, slArr(d), A2), E))
	if x.checkFrames {
		x.noteWrite(s, key, slArr(d))
	}
	return tv(x.fromInt(n, types.Typ[types.Int]), types.Typ[types.Int]), nil
}
