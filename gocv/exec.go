package main

// Symbolic execution of go/ssa function bodies: path enumeration, loops cut at invariants,
// calls by contract (calls.go), safety obligations generated with zero annotation.

import (
	"fmt"
	"go/ast"
	"go/constant"
	"go/printer"
	"go/token"
	"go/types"
	"math"
	"math/big"
	"sort"
	"strings"

	"golang.org/x/tools/go/ast/astutil"
	"golang.org/x/tools/go/ssa"
)

type Obligation struct {
	Name       string
	Fn         string
	Class      string
	Asserts    []*Term
	Goal       *Term
	Path       string
	Note       string
	Inputs     map[string]string // param name -> symbol (for replay)
	AxiomOrder int
}

type loopInfo struct {
	header  *ssa.BasicBlock
	ordinal int
	body    map[*ssa.BasicBlock]bool
	latches map[*ssa.BasicBlock]bool
}

type Exec struct {
	eng           *Engine
	fn            *ssa.Function
	fc            *FuncContract
	mode          string
	obls          []*Obligation
	heapSorts     map[string]string
	entryHeap     map[string]*Term
	entryAlloc    *Term
	globalsDone   map[*ssa.Call]bool
	spareOf       map[*ssa.BasicBlock]int
	spareUsed     map[int]bool
	entryAsserts  *assertNode
	params        map[string]Val
	paramOrder    []string
	paths         int
	returns       int
	unsupported   map[string]bool
	uncontracted  map[string]bool
	inlined       map[string]bool
	contractsUsed map[string]bool
	loopCache     map[*ssa.Function]map[*ssa.BasicBlock]*loopInfo
	nameCache     map[*ssa.Function]map[ssa.Instruction]string
	maxPaths      int
	aborted       string
	checkFrames   bool
	assignLocs    []assignLoc
	coverDone     map[string]bool
	curSite       string
	loadBound     *Term
	inSpec        bool
	entryLocks    map[string]string
}

type assignLoc struct {
	key  string // heap component
	ref  *Term  // nil = whole component
	text string
	sort string
}

type abortPath struct{ reason string }

func (a *abortPath) Error() string { return a.reason }

func (x *Exec) fnName(fn *ssa.Function) string {
	if fn.Pkg != nil {
		return fn.RelString(fn.Pkg.Pkg)
	}
	return fn.String()
}

func (x *Exec) emit(s *State, class, name string, goal *Term, note string) {
	if goal.isTrue() {
		// trivially discharged; still counted
		x.obls = append(x.obls, &Obligation{Name: name, Fn: x.fnName(x.fn), Class: class, Goal: TTrue, Note: note, Path: strings.Join(s.trace, ",")})
		return
	}
	x.obls = append(x.obls, &Obligation{Name: name, Fn: x.fnName(x.fn), Class: class, Asserts: s.assertList(), Goal: goal, Note: note, Path: strings.Join(s.trace, ",")})
}

// check emits an obligation and then assumes it on the continuing path.
func (x *Exec) check(s *State, class, name string, goal *Term, note string) {
	x.emit(s, class, name, goal, note)
	s.assume(goal)
}

// ---------- loops ----------

func (x *Exec) loopsOf(fn *ssa.Function) map[*ssa.BasicBlock]*loopInfo {
	if l, ok := x.loopCache[fn]; ok {
		return l
	}
	loops := map[*ssa.BasicBlock]*loopInfo{}
	for _, b := range fn.Blocks {
		for _, succ := range b.Succs {
			if succ.Dominates(b) {
				li := loops[succ]
				if li == nil {
					li = &loopInfo{header: succ, body: map[*ssa.BasicBlock]bool{succ: true}, latches: map[*ssa.BasicBlock]bool{}}
					loops[succ] = li
				}
				li.latches[b] = true
				// natural loop: nodes that reach b without passing header
				stack := []*ssa.BasicBlock{b}
				for len(stack) > 0 {
					n := stack[len(stack)-1]
					stack = stack[:len(stack)-1]
					if li.body[n] {
						continue
					}
					li.body[n] = true
					stack = append(stack, n.Preds...)
				}
			}
		}
	}
	var hs []*ssa.BasicBlock
	for h := range loops {
		hs = append(hs, h)
	}
	sort.Slice(hs, func(i, j int) bool { return hs[i].Index < hs[j].Index })
	for i, h := range hs {
		loops[h].ordinal = i + 1
	}
	x.loopCache[fn] = loops
	return loops
}

// ---------- source-text names for safety obligations ----------

func (x *Exec) instrNames(fn *ssa.Function) map[ssa.Instruction]string {
	if m, ok := x.nameCache[fn]; ok {
		return m
	}
	m := map[ssa.Instruction]string{}
	seen := map[string]int{}
	var file *ast.File
	if fn.Pkg != nil {
		if syn := fn.Syntax(); syn != nil {
			for _, f := range x.eng.filesOf(fn.Pkg) {
				if f.Pos() <= syn.Pos() && syn.Pos() < f.End() {
					file = f
				}
			}
		}
	}
	for _, b := range fn.Blocks {
		for _, in := range b.Instrs {
			var want string
			switch in.(type) {
			case *ssa.IndexAddr, *ssa.Index, *ssa.Lookup:
				want = "index"
			case *ssa.Slice:
				want = "slice"
			case *ssa.FieldAddr, *ssa.Field:
				want = "sel"
			case *ssa.BinOp:
				want = "binop"
			case *ssa.TypeAssert:
				want = "assert"
			case *ssa.Call, *ssa.Defer, *ssa.Go:
				want = "call"
			case *ssa.UnOp:
				want = "unop"
			case *ssa.MapUpdate:
				want = "mapupd"
			case *ssa.Panic:
				want = "panic"
			case *ssa.MakeSlice:
				want = "make"
			case *ssa.Convert:
				want = "conv"
			case *ssa.Store:
				want = "store"
			default:
				continue
			}
			text := ""
			if file != nil && in.Pos().IsValid() {
				text = x.srcTextAt(file, in.Pos(), want)
			}
			if text == "" {
				text = strings.TrimSpace(in.String())
				if v, ok := in.(ssa.Value); ok {
					text = v.Name() + "=" + text
				}
			}
			seen[want+":"+text]++
			if n := seen[want+":"+text]; n > 1 {
				text = fmt.Sprintf("%s#%d", text, n)
			}
			m[in] = text
		}
	}
	x.nameCache[fn] = m
	return m
}

func (x *Exec) srcTextAt(file *ast.File, pos token.Pos, want string) string {
	path, _ := astutil.PathEnclosingInterval(file, pos, pos+1)
	for _, n := range path {
		ok := false
		switch n.(type) {
		case *ast.IndexExpr:
			ok = want == "index" || want == "mapupd" || want == "store"
		case *ast.SliceExpr:
			ok = want == "slice"
		case *ast.SelectorExpr:
			ok = want == "sel" || want == "unop"
		case *ast.BinaryExpr:
			ok = want == "binop"
		case *ast.TypeAssertExpr:
			ok = want == "assert"
		case *ast.CallExpr:
			ok = want == "call" || want == "panic" || want == "make" || want == "conv" || want == "assert"
		case *ast.StarExpr, *ast.UnaryExpr:
			ok = want == "unop"
		case *ast.IncDecStmt:
			ok = want == "binop"
		case *ast.AssignStmt:
			ok = want == "binop" || want == "mapupd" || want == "store"
		case *ast.RangeStmt:
			if want == "index" || want == "binop" {
				rs := n.(*ast.RangeStmt)
				var sb strings.Builder
				sb.WriteString("range ")
				printer.Fprint(&sb, x.eng.prog.Fset, rs.X)
				return sb.String()
			}
		}
		if ok {
			var sb strings.Builder
			printer.Fprint(&sb, x.eng.prog.Fset, n)
			t := sb.String()
			t = strings.Join(strings.Fields(t), " ")
			if len(t) > 100 {
				t = t[:100]
			}
			return t
		}
	}
	return ""
}

// ---------- running a function ----------

func (x *Exec) lookupVal(s *State, fr *Frame, v ssa.Value) (Val, error) {
	switch c := v.(type) {
	case *ssa.Const:
		return x.constVal(s, c)
	case *ssa.Global:
		return Val{LV: &LValue{Kind: lvGlobal, Global: c, Typ: c.Type().(*types.Pointer).Elem()}, GoT: c.Type()}, nil
	case *ssa.Function:
		return Val{T: IntLit(int64(1000000 + x.eng.tagOf(types.NewPointer(c.Signature))*0 + x.funcID(c))), GoT: c.Type(), Fn: c}, nil
	case *ssa.Builtin:
		return Val{GoT: c.Type()}, nil
	}
	if val, ok := fr.vals[v]; ok {
		return val, nil
	}
	return Val{}, fmt.Errorf("value %s (%T) not defined on this path", v.Name(), v)
}

func (x *Exec) funcID(f *ssa.Function) int {
	return x.eng.tagOf(types.NewPointer(types.NewNamed(types.NewTypeName(token.NoPos, nil, "fn$"+f.String(), nil), types.Typ[types.Int], nil)))
}

func (x *Exec) constVal(s *State, c *ssa.Const) (Val, error) {
	t := c.Type()
	if c.Value == nil {
		return tv(x.eng.zeroOf(t, x.mode), t), nil
	}
	switch {
	case isBool(t):
		if constant.BoolVal(c.Value) {
			return tv(TTrue, t), nil
		}
		return tv(TFalse, t), nil
	case isString(t):
		return tv(x.strLit(s, constant.StringVal(c.Value)), t), nil
	case isFloat(t):
		f, _ := constant.Float64Val(c.Value)
		return tv(fpLit(f), t), nil
	}
	if ii, ok := intInfoOf(t); ok {
		n, exact := constant.Int64Val(constant.ToInt(c.Value))
		var bn *big.Int
		if exact {
			bn = big.NewInt(n)
		} else {
			u, _ := constant.Uint64Val(constant.ToInt(c.Value))
			bn = new(big.Int).SetUint64(u)
		}
		if x.mode == "bv" {
			return tv(BVLit(bn, ii.w), t), nil
		}
		return tv(BigLit(bn), t), nil
	}
	return Val{}, fmt.Errorf("unsupported constant %s", c)
}

func fpLit(f float64) *Term {
	bits := math.Float64bits(f)
	sign := bits >> 63
	exp := (bits >> 52) & 0x7ff
	man := bits & ((1 << 52) - 1)
	return Lit(fmt.Sprintf("(fp #b%b #b%011b #b%052b)", sign, exp, man), SFP64)
}

func (x *Exec) strLit(s *State, v string) *Term {
	if len(v) == 0 {
		return Lit("(as seq.empty Str)", SStr)
	}
	if len(v) <= 24 {
		var units []*Term
		for i := 0; i < len(v); i++ {
			units = append(units, App("seq.unit", SStr, IntLit(int64(v[i]))))
		}
		if len(units) == 1 {
			return units[0]
		}
		return App("seq.++", SStr, units...)
	}
	h := fmt.Sprintf("strlit$%x", hashStr(v))
	t := Var(h, SStr)
	s.assume(Eq(App("seq.len", SInt, t), IntLit(int64(len(v)))))
	return t
}

func hashStr(s string) uint64 {
	var h uint64 = 14695981039346656037
	for i := 0; i < len(s); i++ {
		h ^= uint64(s[i])
		h *= 1099511628211
	}
	return h
}

// bind defines the value of an SSA instruction on this path.
func (x *Exec) bind(s *State, fr *Frame, v ssa.Value, val Val) {
	if val.T != nil {
		pfx := "v$" + v.Name()
		if fr.depth > 0 {
			pfx = fmt.Sprintf("v%d$%s", fr.depth, v.Name())
		}
		val.T = x.name(s, pfx, val.T)
	}
	if val.GoT == nil {
		val.GoT = v.Type()
	}
	fr.vals[v] = val
}

func (x *Exec) abort(reason string) {
	x.unsupported[reason] = true
}

type contFn func(s *State, results []Val)

// runBlock executes block b of frame fr having arrived from pred.
func (x *Exec) runBlock(s *State, b *ssa.BasicBlock, pred *ssa.BasicBlock, k contFn) {
	if x.aborted != "" {
		return
	}
	fr := s.top()
	s.steps++
	if s.steps > 4000 {
		x.abort("path too long in " + x.fnName(fr.fn))
		return
	}
	if fr.depth == 0 {
		s.trace = append(s.trace, fmt.Sprintf("%d", b.Index))
	}
	loops := x.loopsOf(fr.fn)
	li := loops[b]
	i := 0
	// ghost assertions at the end of an iteration (evaluated with the pre-advance loop variables)
	if li != nil && pred != nil && li.latches[pred] && fr.visited[b] {
		if fc := x.contractFor(fr.fn); fc != nil && fc.Loops[li.ordinal] != nil {
			// loop variables denote their values at the start of the iteration that just ended
			iterStart := map[string]Val{}
			for _, in := range b.Instrs {
				phi, ok := in.(*ssa.Phi)
				if !ok {
					break
				}
				if phi.Comment != "" {
					iterStart[phi.Comment] = fr.vals[phi]
				}
			}
			for _, la := range fc.Loops[li.ordinal].Latch {
				t, err := x.specBool(s, fr, la.E, iterStart)
				if err != nil {
					x.abort(fmt.Sprintf("loop%d latch %s: %v", li.ordinal, la.Name, err))
					return
				}
				x.check(s, "invariant", fmt.Sprintf("loop%d.latch.%s", li.ordinal, la.Name), t, la.Text)
			}
		}
	}
	// phis
	if pred != nil {
		predIdx := -1
		for j, p := range b.Preds {
			if p == pred {
				predIdx = j
				break
			}
		}
		newVals := map[ssa.Value]Val{}
		for ; i < len(b.Instrs); i++ {
			phi, ok := b.Instrs[i].(*ssa.Phi)
			if !ok {
				break
			}
			v, err := x.lookupVal(s, fr, phi.Edges[predIdx])
			if err != nil {
				x.abort(err.Error())
				return
			}
			newVals[phi] = v
		}
		for p, v := range newVals {
			v.GoT = p.Type()
			fr.vals[p] = v
			if c := p.(*ssa.Phi).Comment; c != "" {
				fr.vars[c] = v
			}
		}
	}
	if li != nil {
		fc := x.contractFor(fr.fn)
		var spec *LoopSpec
		if fc != nil {
			spec = fc.Loops[li.ordinal]
		}
		if spec == nil && fr.depth > 0 && (fc == nil || len(fc.Loops) == 0) {
			// a loop of an inlined, uncontracted helper: if the function under verification has loop
			// contracts for loops it no longer contains (the loop was extracted into this helper),
			// they are tried here, in order. The invariants are checked like any others, so a wrong
			// match cannot make anything pass that should not.
			spec = x.spareLoopSpec(b)
			if spec != nil {
				if c, ok := fr.vars[fmt.Sprintf("iter%d", li.ordinal)]; ok {
					fr.vars[fmt.Sprintf("iter%d", x.spareOf[b])] = c
				}
			}
		}
		lname := fmt.Sprintf("loop%d", li.ordinal)
		if fr.depth > 0 {
			lname = x.fnName(fr.fn) + "." + lname
		}
		if pred != nil && li.latches[pred] && fr.visited[b] {
			// back edge: invariants must be preserved; path ends
			if spec != nil {
				for _, inv := range spec.Invariants {
					t, err := x.specBool(s, fr, inv.E, nil)
					if err != nil {
						if strings.Contains(err.Error(), "unknown identifier") {
							continue // dropped at entry as well (see there)
						}
						x.abort(fmt.Sprintf("%s invariant %s: %v", lname, inv.Name, err))
						return
					}
					x.check(s, "invariant", lname+"."+inv.Name+".preserved", t, inv.Text)
				}
			}
			for _, t := range x.autoInvariants(s, fr, b) {
				x.emit(s, "invariant", lname+".auto."+t.name+".preserved", t.t, "auto")
			}
			return
		}
		// entry
		for _, in := range b.Instrs {
			if nx, ok := in.(*ssa.Next); ok && !nx.IsString {
				if rg, ok := nx.Iter.(*ssa.Range); ok {
					if c, has := fr.vars["iter$"+rg.Name()]; has {
						fr.vars[fmt.Sprintf("iter%d", li.ordinal)] = c
					}
				}
			}
		}
		if spec != nil {
			for _, inv := range spec.Invariants {
				t, err := x.specBool(s, fr, inv.E, nil)
				if err != nil {
					if strings.Contains(err.Error(), "unknown identifier") {
						// the clause speaks about a variable the code no longer has (a removed
						// temporary): it is dropped, which only weakens what is assumed
						x.eng.warn("%s invariant %s dropped: %v", lname, inv.Name, err)
						continue
					}
					x.abort(fmt.Sprintf("%s invariant %s: %v", lname, inv.Name, err))
					return
				}
				x.check(s, "invariant", lname+"."+inv.Name+".entry", t, inv.Text)
			}
		}
		autos := x.autoInvariants(s, fr, b)
		for _, t := range autos {
			x.emit(s, "invariant", lname+".auto."+t.name+".entry", t.t, "auto")
		}
		// havoc loop-carried values and modified heap
		fr.visited[b] = true
		var havocked []Val
		for _, in := range b.Instrs {
			phi, ok := in.(*ssa.Phi)
			if !ok {
				break
			}
			// a phi whose value on every back edge is the phi itself is loop-invariant
			invariantPhi := true
			for pi, pb := range b.Preds {
				if li.latches[pb] && phi.Edges[pi] != ssa.Value(phi) {
					invariantPhi = false
				}
			}
			if invariantPhi {
				continue
			}
			old := fr.vals[phi]
			if old.T == nil {
				x.abort("loop-carried non-scalar value " + phi.Name())
				return
			}
			nv := Var(x.eng.fresh("l$"+phi.Name()), old.T.Sort)
			val := Val{T: nv, GoT: phi.Type()}
			havocked = append(havocked, val)
			fr.vals[phi] = val
			if phi.Comment != "" {
				fr.vars[phi.Comment] = val
			}
		}
		for _, in := range b.Instrs {
			if nx, ok := in.(*ssa.Next); ok && !nx.IsString {
				if rg, ok := nx.Iter.(*ssa.Range); ok {
					if _, has := fr.vars["iter$"+rg.Name()]; has {
						c := Var(x.eng.fresh("iter$"+rg.Name()), SInt)
						s.assume(ILe(IntLit(0), c))
						fr.vars["iter$"+rg.Name()] = tv(c, types.Typ[types.Int])
						fr.vars[fmt.Sprintf("iter%d", li.ordinal)] = tv(c, types.Typ[types.Int])
					}
				}
			}
		}
		keys, all := x.modifiedHeaps(fr.fn, li.body)
		if all {
			for k := range x.heapSorts {
				x.heapHavoc(s, k)
			}
			na := Var(x.eng.fresh("alloc"), SInt)
			s.assume(ILe(s.alloc, na))
			s.alloc = na
		} else {
			for k := range keys {
				x.heapHavoc(s, k)
			}
			na := Var(x.eng.fresh("alloc"), SInt)
			s.assume(ILe(s.alloc, na))
			s.alloc = na
		}
		for _, hv := range havocked {
			x.assumeTyped(s, hv.T, hv.GoT)
		}
		if spec != nil {
			for _, inv := range spec.Invariants {
				t, err := x.specBool(s, fr, inv.E, nil)
				if err != nil {
					if strings.Contains(err.Error(), "unknown identifier") {
						// the clause speaks about a variable the code no longer has (a removed
						// temporary): it is dropped, which only weakens what is assumed
						x.eng.warn("%s invariant %s dropped: %v", lname, inv.Name, err)
						continue
					}
					x.abort(fmt.Sprintf("%s invariant %s: %v", lname, inv.Name, err))
					return
				}
				s.assume(t)
			}
		}
		for _, t := range x.autoInvariants(s, fr, b) {
			s.assume(t.t)
		}
	}
	x.runInstrs(s, b, i, k)
}

// runInstrs continues a block from instruction index i (after a call or RunDefers).
func (x *Exec) runInstrs(s *State, b *ssa.BasicBlock, i int, k contFn) {
	fr := s.top()
	// re-enter the generic loop by a synthetic view of the block tail
	for ; i < len(b.Instrs); i++ {
		in := b.Instrs[i]
		switch in := in.(type) {
		case *ssa.If:
			c, err := x.lookupVal(s, fr, in.Cond)
			if err != nil {
				x.abort(err.Error())
				return
			}
			if c.T.isTrue() {
				x.runBlock(s, b.Succs[0], b, k)
				return
			}
			if c.T.isFalse() {
				x.runBlock(s, b.Succs[1], b, k)
				return
			}
			x.paths++
			if x.paths > x.maxPaths {
				x.aborted = fmt.Sprintf("more than %d paths", x.maxPaths)
				return
			}
			s2 := s.clone()
			s.assume(c.T)
			x.runBlock(s, b.Succs[0], b, k)
			s2.assume(Not(c.T))
			x.runBlock(s2, b.Succs[1], b, k)
			return
		case *ssa.Jump:
			x.runBlock(s, b.Succs[0], b, k)
			return
		case *ssa.Return:
			var rs []Val
			for _, r := range in.Results {
				v, err := x.lookupVal(s, fr, r)
				if err != nil {
					x.abort(err.Error())
					return
				}
				rs = append(rs, v)
				s.noteEscape(v)
			}
			k(s, rs)
			return
		case *ssa.Panic:
			name := "panic:" + x.instrNames(fr.fn)[in]
			if fr.depth > 0 {
				name = "panic:" + x.fnName(fr.fn) + ":" + x.instrNames(fr.fn)[in]
			}
			x.emit(s, "safety", name, TFalse, "explicit panic reachable")
			return
		case *ssa.RunDefers:
			idx := i
			x.runDefers(s, func(s2 *State) {
				x.runInstrs(s2, b, idx+1, k)
			})
			return
		case *ssa.Call:
			idx := i
			x.doCall(s, in, in.Common(), func(s2 *State, res Val) {
				if res.T != nil || res.Tup != nil || res.LV != nil {
					x.bind(s2, s2.top(), in, res)
				}
				x.runInstrs(s2, b, idx+1, k)
			})
			return
		default:
			if err := x.step(s, fr, in); err != nil {
				if ap, ok := err.(*abortPath); ok {
					if ap.reason != "" {
						x.abort(ap.reason)
					}
					return
				}
				x.abort(fmt.Sprintf("%s: %s: %v", x.fnName(fr.fn), in.String(), err))
				return
			}
		}
	}
}

type namedTerm struct {
	name string
	t    *Term
}

// autoInvariants: for a header phi  i = phi [c, i + d] with constant c and constant d > 0: i >= c.
func (x *Exec) autoInvariants(s *State, fr *Frame, b *ssa.BasicBlock) []namedTerm {
	if x.mode == "bv" {
		return nil
	}
	var out []namedTerm
	for _, in := range b.Instrs {
		phi, ok := in.(*ssa.Phi)
		if !ok {
			break
		}
		if _, isInt := intInfoOf(phi.Type()); !isInt {
			continue
		}
		var lo *big.Int
		okShape := true
		for _, e := range phi.Edges {
			if c, isC := e.(*ssa.Const); isC && c.Value != nil {
				n, _ := constant.Int64Val(constant.ToInt(c.Value))
				if lo == nil || big.NewInt(n).Cmp(lo) < 0 {
					lo = big.NewInt(n)
				}
				continue
			}
			if bo, isB := e.(*ssa.BinOp); isB && bo.Op == token.ADD {
				if bo.X == phi {
					if c, isC := bo.Y.(*ssa.Const); isC && c.Value != nil {
						if n, _ := constant.Int64Val(constant.ToInt(c.Value)); n > 0 {
							continue
						}
					}
				}
			}
			okShape = false
		}
		if !okShape || lo == nil {
			continue
		}
		cur := fr.vals[phi]
		if cur.T == nil {
			continue
		}
		// range pattern: inc = phi + 1; if inc < L (L defined outside the loop): phi < L
		for _, in2 := range b.Instrs {
			bo, ok := in2.(*ssa.BinOp)
			if !ok || bo.Op != token.ADD || bo.X != phi {
				continue
			}
			if c, isC := bo.Y.(*ssa.Const); !isC || c.Value == nil || c.Value.String() != "1" {
				continue
			}
			iff, ok := b.Instrs[len(b.Instrs)-1].(*ssa.If)
			if !ok {
				continue
			}
			cmp, ok := iff.Cond.(*ssa.BinOp)
			if !ok || cmp.Op != token.LSS || cmp.X != bo {
				continue
			}
			if lim, err := x.lookupVal(s, fr, cmp.Y); err == nil && lim.T != nil && lim.T.Sort == SInt {
				if li := x.loopsOf(fr.fn)[b]; li != nil {
					if def, isInstr := cmp.Y.(ssa.Instruction); !isInstr || !li.body[def.Block()] {
						out = append(out, namedTerm{"range<len", ILt(cur.T, lim.T)})
					}
				}
			}
		}
		nm := phi.Comment
		if nm == "" {
			nm = phi.Name()
		}
		out = append(out, namedTerm{nm + ">=" + lo.String(), ILe(BigLit(lo), cur.T)})
	}
	return out
}

// ---------- single instructions ----------

func (x *Exec) step(s *State, fr *Frame, in ssa.Instruction) error {
	names := x.instrNames(fr.fn)
	oname := func(class string) string {
		n := class + ":" + names[in]
		if fr.depth > 0 {
			n = class + ":" + x.fnName(fr.fn) + ":" + names[in]
		}
		return n
	}
	get := func(v ssa.Value) (Val, error) { return x.lookupVal(s, fr, v) }
	switch in := in.(type) {
	case *ssa.DebugRef:
		if id, ok := in.Expr.(*ast.Ident); ok {
			v, err := get(in.X)
			if err != nil {
				return nil // value not defined on this path (dead debug ref)
			}
			if in.IsAddr {
				// variable lives in memory: remember its address
				elem := in.X.Type().Underlying().(*types.Pointer).Elem()
				fr.vars["&"+id.Name] = Val{LV: x.lvalueOf(v, elem), GoT: elem}
			} else if v.T != nil {
				if obj := in.Object(); obj != nil {
					if _, isVar := obj.(*types.Var); isVar {
						fr.vars[id.Name] = v
					}
				}
			}
		}
		return nil
	case *ssa.Alloc:
		elem := in.Type().(*types.Pointer).Elem()
		ref := x.allocRef(s, "new$"+in.Name())
		// the new object's allocation type (distinct per Go type; arrays/slices/maps get -1 elsewhere)
		x.eng.reg.AddFun("rtype", []string{SInt}, SInt)
		s.assume(Eq(App("rtype", SInt, ref), IntLit(int64(x.eng.tagOf(elem)))))
		if len(x.eng.typeInvClauses(elem)) > 0 {
			s.fresh = append(s.fresh, freshObj{typ: elem, ref: ref})
		}
		lv := &LValue{Kind: lvCell, Ref: ref, Typ: elem}
		if err := x.store(s, lv, x.eng.zeroOf(elem, x.mode)); err != nil {
			return err
		}
		fr.vals[in] = Val{T: ref, GoT: in.Type()}
		if in.Comment != "" && !in.Heap {
			fr.vars["&"+in.Comment] = Val{LV: lv, GoT: elem}
		}
		return nil
	case *ssa.UnOp:
		a, err := get(in.X)
		if err != nil {
			return err
		}
		switch in.Op {
		case token.MUL: // load
			if fv, isFV := in.X.(*ssa.FreeVar); isFV && fr.depth == 0 && !storesTo(fr.fn, fv) {
				// a captured variable the closure never assigns: its value is the one named in the contract
				if pv, ok := x.params[fv.Name()]; ok && pv.T != nil {
					fr.vals[in] = Val{T: pv.T, GoT: in.Type()}
					return nil
				}
			}
			x.curSite = oname("load")[len("load:"):]
			elem := in.X.Type().Underlying().(*types.Pointer).Elem()
			lv := x.lvalueOf(a, elem)
			if a.LV == nil {
				x.check(s, "safety", oname("nil"), Not(Eq(a.T, IntLit(0))), "nil dereference")
			}
			t, err := x.load(s, lv)
			if err != nil {
				return err
			}
			t = x.name(s, "v$"+in.Name(), t)
			if x.loadBound != nil {
				s.assume(x.eng.typeInv(t, elem, x.mode, x.loadBound))
				x.assumeInv(s, t, elem, TTrue)
			} else {
				x.assumeTyped(s, t, elem)
			}
			fr.vals[in] = Val{T: t, GoT: in.Type()}
			return nil
		case token.NOT:
			x.bind(s, fr, in, tv(Not(a.T), in.Type()))
			return nil
		case token.SUB:
			if isFloat(in.Type()) {
				x.bind(s, fr, in, tv(App("fp.neg", a.T.Sort, a.T), in.Type()))
				return nil
			}
			ii, _ := intInfoOf(in.Type())
			if x.mode == "bv" {
				x.bind(s, fr, in, tv(App("bvneg", a.T.Sort, a.T), in.Type()))
				return nil
			}
			r := ISub(IntLit(0), a.T)
			if x.mode == "wrap" {
				x.bind(s, fr, in, tv(wrapInt(r, ii), in.Type()))
				return nil
			}
			x.check(s, "overflow", oname("overflow"), And(ILe(BigLit(ii.min()), r), ILe(r, BigLit(ii.max()))), "negation overflow")
			x.bind(s, fr, in, tv(r, in.Type()))
			return nil
		case token.XOR:
			ii, _ := intInfoOf(in.Type())
			if x.mode == "bv" {
				x.bind(s, fr, in, tv(App("bvnot", a.T.Sort, a.T), in.Type()))
				return nil
			}
			var r *Term
			if ii.signed {
				r = ISub(ISub(IntLit(0), a.T), IntLit(1))
			} else {
				r = ISub(BigLit(ii.max()), a.T)
			}
			x.bind(s, fr, in, tv(r, in.Type()))
			return nil
		case token.ARROW:
			x.checkAwait(s, x.siteName(s, in))
			return &abortPath{"channel receive in " + x.fnName(fr.fn)}
		}
		return fmt.Errorf("unsupported unary op %s", in.Op)
	case *ssa.BinOp:
		a, err := get(in.X)
		if err != nil {
			return err
		}
		b, err := get(in.Y)
		if err != nil {
			return err
		}
		r, err := x.binop(s, in.Op, a, b, in.X.Type(), in.Y.Type(), in.Type(), oname)
		if err != nil {
			return err
		}
		x.bind(s, fr, in, tv(r, in.Type()))
		return nil
	case *ssa.Store:
		x.curSite = oname("store")[len("store:"):]
		p, err := get(in.Addr)
		if err != nil {
			return err
		}
		v, err := get(in.Val)
		if err != nil {
			return err
		}
		elem := in.Addr.Type().Underlying().(*types.Pointer).Elem()
		if p.LV == nil {
			x.check(s, "safety", oname("nil"), Not(Eq(p.T, IntLit(0))), "nil dereference on store")
		}
		if v.T == nil {
			if v.Fn != nil {
				v.T = IntLit(int64(x.funcID(v.Fn)))
			} else {
				return fmt.Errorf("store of non-scalar (interior pointer escapes)")
			}
		}
		s.noteEscape(v)
		return x.store(s, x.lvalueOf(p, elem), v.T)
	case *ssa.FieldAddr:
		p, err := get(in.X)
		if err != nil {
			return err
		}
		styp := in.X.Type().Underlying().(*types.Pointer).Elem()
		st := styp.Underlying().(*types.Struct)
		ft := st.Field(in.Field).Type()
		if p.LV != nil && !(p.LV.Kind == lvCell) {
			fr.vals[in] = Val{LV: &LValue{Kind: lvField, Base: p.LV, STyp: styp, ST: st, Field: in.Field, Typ: ft}, GoT: in.Type()}
			return nil
		}
		ref := p.T
		if p.LV != nil {
			ref = p.LV.Ref
		} else {
			x.check(s, "safety", oname("nil"), Not(Eq(ref, IntLit(0))), "nil dereference (field address)")
		}
		if x.eng.opaqueStruct(styp) {
			fr.vals[in] = Val{LV: &LValue{Kind: lvOpaque, Typ: ft}, GoT: in.Type()}
			return nil
		}
		fr.vals[in] = Val{LV: &LValue{Kind: lvField, Ref: ref, STyp: styp, ST: st, Field: in.Field, Typ: ft}, GoT: in.Type()}
		// object invariants of *ref hold whenever it is not under construction here
		x.assumeInv(s, ref, in.X.Type(), TTrue)
		return nil
	case *ssa.Field:
		v, err := get(in.X)
		if err != nil {
			return err
		}
		styp := in.X.Type()
		st := styp.Underlying().(*types.Struct)
		x.bind(s, fr, in, tv(x.eng.structField(styp, st, x.mode, v.T, in.Field), in.Type()))
		return nil
	case *ssa.IndexAddr:
		a, err := get(in.X)
		if err != nil {
			return err
		}
		idx, err := get(in.Index)
		if err != nil {
			return err
		}
		it := x.toInt(idx.T, in.Index.Type())
		switch u := in.X.Type().Underlying().(type) {
		case *types.Slice:
			x.check(s, "safety", oname("index"), And(ILe(IntLit(0), it), ILt(it, slLen(a.T))), "index out of range")
			fr.vals[in] = Val{LV: &LValue{Kind: lvElem, Slice: a.T, Idx: it, Typ: u.Elem()}, GoT: in.Type()}
			return nil
		case *types.Pointer:
			at := u.Elem().Underlying().(*types.Array)
			x.check(s, "safety", oname("index"), And(ILe(IntLit(0), it), ILt(it, IntLit(at.Len()))), "index out of range")
			if a.LV != nil && a.LV.Kind != lvCell {
				fr.vals[in] = Val{LV: &LValue{Kind: lvArrElem, Base: a.LV, Idx: it, Typ: at.Elem()}, GoT: in.Type()}
				return nil
			}
			ref := a.T
			if a.LV != nil {
				ref = a.LV.Ref
			} else {
				x.check(s, "safety", oname("nil"), Not(Eq(ref, IntLit(0))), "nil dereference (array pointer)")
			}
			sl := mkSlice(ref, IntLit(0), IntLit(at.Len()), IntLit(at.Len()))
			fr.vals[in] = Val{LV: &LValue{Kind: lvElem, Slice: sl, Idx: it, Typ: at.Elem()}, GoT: in.Type()}
			return nil
		}
		return fmt.Errorf("IndexAddr on %s", in.X.Type())
	case *ssa.Index:
		a, err := get(in.X)
		if err != nil {
			return err
		}
		idx, err := get(in.Index)
		if err != nil {
			return err
		}
		it := x.toInt(idx.T, in.Index.Type())
		switch u := in.X.Type().Underlying().(type) {
		case *types.Array:
			x.check(s, "safety", oname("index"), And(ILe(IntLit(0), it), ILt(it, IntLit(u.Len()))), "index out of range")
			r := x.name(s, "v$"+in.Name(), Select(a.T, it))
			x.assumeTyped(s, r, u.Elem())
			fr.vals[in] = tv(r, in.Type())
			return nil
		case *types.Basic: // string
			x.check(s, "safety", oname("index"), And(ILe(IntLit(0), it), ILt(it, App("seq.len", SInt, a.T))), "index out of range")
			r := x.name(s, "v$"+in.Name(), App("seq.nth", SInt, a.T, it))
			s.assume(And(ILe(IntLit(0), r), ILe(r, IntLit(255))))
			fr.vals[in] = tv(x.fromInt(r, in.Type()), in.Type())
			return nil
		}
		return fmt.Errorf("Index on %s", in.X.Type())
	case *ssa.Lookup:
		return x.lookup(s, fr, in, oname)
	case *ssa.MapUpdate:
		return x.mapUpdate(s, fr, in, oname)
	case *ssa.MakeMap:
		mt := in.Type().Underlying().(*types.Map)
		ref := x.allocRef(s, "map$"+in.Name())
		hk, vk, lk := x.mapKeys(mt)
		ks := x.sortOf(mt.Key())
		vs := x.sortOf(mt.Elem())
		has := x.heapGet(s, hk, SArr(SInt, SArr(ks, SBool)))
		x.heapSet(s, hk, Store(has, ref, App("(as const "+SArr(ks, SBool)+")", SArr(ks, SBool), TFalse)))
		_ = x.heapGet(s, vk, SArr(SInt, SArr(ks, vs)))
		ln := x.heapGet(s, lk, SArr(SInt, SInt))
		x.heapSet(s, lk, Store(ln, ref, IntLit(0)))
		fr.vals[in] = tv(ref, in.Type())
		return nil
	case *ssa.MakeSlice:
		ln, err := get(in.Len)
		if err != nil {
			return err
		}
		cp, err := get(in.Cap)
		if err != nil {
			return err
		}
		lt := x.toInt(ln.T, in.Len.Type())
		ct := x.toInt(cp.T, in.Cap.Type())
		x.check(s, "safety", oname("make"), And(ILe(IntLit(0), lt), ILe(lt, ct)), "makeslice: len out of range")
		s.assume(ILe(ct, BigLit(new(big.Int).Lsh(big.NewInt(1), maxCapBits))))
		elem := in.Type().Underlying().(*types.Slice).Elem()
		ref := x.allocRef(s, "mk$"+in.Name())
		key := x.elemKey(elem)
		es := x.sortOf(elem)
		h := x.heapGet(s, key, SArr(SInt, SArr(SInt, es)))
		x.heapSet(s, key, Store(h, ref, App("(as const "+SArr(SInt, es)+")", SArr(SInt, es), x.eng.zeroOf(elem, x.mode))))
		x.bind(s, fr, in, tv(mkSlice(ref, IntLit(0), lt, ct), in.Type()))
		return nil
	case *ssa.Slice:
		return x.sliceOp(s, fr, in, oname)
	case *ssa.MakeInterface:
		v, err := get(in.X)
		if err != nil {
			return err
		}
		t, err := x.makeIface(s, v, in.X.Type())
		if err != nil {
			return err
		}
		x.bind(s, fr, in, tv(t, in.Type()))
		return nil
	case *ssa.ChangeInterface:
		v, err := get(in.X)
		if err != nil {
			return err
		}
		fr.vals[in] = tv(v.T, in.Type())
		return nil
	case *ssa.ChangeType:
		v, err := get(in.X)
		if err != nil {
			return err
		}
		v.GoT = in.Type()
		fr.vals[in] = v
		return nil
	case *ssa.Convert:
		v, err := get(in.X)
		if err != nil {
			return err
		}
		r, err := x.convert(s, v, in.X.Type(), in.Type(), in.Name())
		if err != nil {
			return err
		}
		x.bind(s, fr, in, tv(r, in.Type()))
		return nil
	case *ssa.TypeAssert:
		return x.typeAssert(s, fr, in, oname)
	case *ssa.Extract:
		t, err := get(in.Tuple)
		if err != nil {
			return err
		}
		if in.Index >= len(t.Tup) {
			return fmt.Errorf("extract %d of %d-tuple", in.Index, len(t.Tup))
		}
		e := t.Tup[in.Index]
		e.GoT = in.Type()
		fr.vals[in] = e
		return nil
	case *ssa.Phi:
		return fmt.Errorf("phi in block body")
	case *ssa.MakeClosure:
		fn := in.Fn.(*ssa.Function)
		var bs []Val
		for _, b := range in.Bindings {
			v, err := get(b)
			if err != nil {
				return err
			}
			bs = append(bs, v)
		}
		fr.vals[in] = Val{T: IntLit(int64(x.funcID(fn))), GoT: in.Type(), Fn: fn, Bindings: bs}
		return nil
	case *ssa.Defer:
		var args []Val
		for _, a := range in.Call.Args {
			v, err := get(a)
			if err != nil {
				return err
			}
			args = append(args, v)
		}
		var fv Val
		if in.Call.Value != nil {
			if _, isB := in.Call.Value.(*ssa.Builtin); !isB {
				v, err := get(in.Call.Value)
				if err != nil {
					return err
				}
				fv = v
			}
		}
		fr.deferSt = append(fr.deferSt, deferred{call: &in.Call, args: args, fn: fv, pos: in})
		return nil
	case *ssa.Range:
		v, err := get(in.X)
		if err != nil {
			return err
		}
		fr.vals[in] = Val{T: v.T, GoT: in.X.Type()}
		if mt, isMap := in.X.Type().Underlying().(*types.Map); isMap {
			// ghost iteration counter: number of successful Next calls on this iterator so far
			_, _, ln := x.mapParts(s, mt, v.T)
			fr.vars["iter$"+in.Name()] = tv(IntLit(0), types.Typ[types.Int])
			fr.vars["iterlen$"+in.Name()] = tv(x.name(s, "iterlen$"+in.Name(), ln), types.Typ[types.Int])
		}
		return nil
	case *ssa.Next:
		return x.next(s, fr, in)
	case *ssa.Go:
		// the spawned goroutine is not followed; from here on it may run at any time, so everything
		// it could write is unknown (all heap components are havoc'd). Lock state is per goroutine.
		// What is kept: the mutexes the goroutine certainly acquires (see checkAwait).
		if in.Call.Value != nil && !in.Call.IsInvoke() {
			if fv, err := get(in.Call.Value); err == nil {
				var gargs []Val
				for _, a := range in.Call.Args {
					if v, err := get(a); err == nil {
						gargs = append(gargs, v)
					} else {
						gargs = append(gargs, Val{})
					}
				}
				if fv.Fn == nil {
					if sf, ok := in.Call.Value.(*ssa.Function); ok {
						fv.Fn = sf
					}
				}
				x.noteSpawn(s, fv, gargs)
			}
		}
		for k := range x.heapSorts {
			x.heapHavoc(s, k)
		}
		na := Var(x.eng.fresh("alloc"), SInt)
		s.assume(ILe(s.alloc, na))
		s.alloc = na
		x.eng.warn("go statement in %s: the spawned goroutine is abstracted (heap havoc)", x.fnName(fr.fn))
		return nil
	case *ssa.Select:
		// channel readiness is not modelled: any listed case (or the default) may be chosen and
		// received values are arbitrary well-typed values
		if in.Blocking {
			x.checkAwait(s, x.siteName(s, in))
		}
		idx := Var(x.eng.fresh("sel$idx$"+in.Name()), SInt)
		lo := IntLit(0)
		if !in.Blocking {
			lo = IntLit(-1)
		}
		s.assume(And(ILe(lo, idx), ILt(idx, IntLit(int64(len(in.States))))))
		tup := []Val{tv(x.fromInt(idx, types.Typ[types.Int]), types.Typ[types.Int]), tv(Var(x.eng.fresh("sel$ok$"+in.Name()), SBool), types.Typ[types.Bool])}
		for _, st := range in.States {
			if st.Dir == types.RecvOnly {
				et := st.Chan.Type().Underlying().(*types.Chan).Elem()
				v := Var(x.eng.fresh("sel$recv$"+in.Name()), x.sortOf(et))
				x.assumeTyped(s, v, et)
				tup = append(tup, tv(v, et))
			}
		}
		fr.vals[in] = Val{Tup: tup, GoT: in.Type()}
		x.eng.warn("select statement in %s: channel readiness abstracted (any case may fire)", x.fnName(fr.fn))
		return nil
	case *ssa.MakeChan:
		// channels are opaque references: contents and readiness are not modelled (see Select)
		fr.vals[in] = tv(x.allocRef(s, "chan$"+in.Name()), in.Type())
		return nil
	case *ssa.Send:
		// a send only hands a value to another goroutine: nothing of this goroutine's state changes
		// (blocking / liveness is not modelled)
		x.eng.warn("channel send in %s abstracted", x.fnName(fr.fn))
		return nil
	case *ssa.SliceToArrayPointer:
		return fmt.Errorf("slice to array pointer")
	}
	return fmt.Errorf("unsupported instruction %T", in)
}

func (x *Exec) allocRef(s *State, prefix string) *Term {
	ref := Var(x.eng.fresh(prefix), SInt)
	s.assume(Eq(ref, s.alloc))
	s.assume(ILt(IntLit(0), ref))
	na := Var(x.eng.fresh("alloc"), SInt)
	s.assume(Eq(na, IAdd(s.alloc, IntLit(1))))
	s.alloc = na
	if !strings.HasPrefix(prefix, "new$") {
		// backing arrays and maps are not struct objects
		x.eng.reg.AddFun("rtype", []string{SInt}, SInt)
		s.assume(Eq(App("rtype", SInt, ref), IntLit(-1)))
	}
	return ref
}

// toInt views an integer-typed term as a mathematical Int (for indices and lengths).
func (x *Exec) toInt(t *Term, gt types.Type) *Term {
	if t.Sort == SInt {
		return t
	}
	if w := bvWidth(t.Sort); w > 0 {
		ii, _ := intInfoOf(gt)
		if ii.signed {
			return App("-", SInt, App("bv2nat", SInt, t), Ite(App("bvslt", SBool, t, BVLit(big.NewInt(0), w)), BigLit(new(big.Int).Lsh(big.NewInt(1), uint(w))), IntLit(0)))
		}
		return App("bv2nat", SInt, t)
	}
	return t
}

func (x *Exec) fromInt(t *Term, gt types.Type) *Term {
	if x.mode == "bv" {
		if ii, ok := intInfoOf(gt); ok {
			return App(fmt.Sprintf("(_ int2bv %d)", ii.w), SBV(ii.w), t)
		}
	}
	return t
}

func pow2(k uint) *Term { return BigLit(new(big.Int).Lsh(big.NewInt(1), k)) }

func (x *Exec) binop(s *State, op token.Token, a, b Val, ta, tb, tr types.Type, oname func(string) string) (*Term, error) {
	// comparisons on any type
	switch op {
	case token.EQL, token.NEQ:
		var r *Term
		if isFloat(ta) {
			r = App("fp.eq", SBool, a.T, b.T)
		} else if _, isSl := ta.Underlying().(*types.Slice); isSl {
			// only comparison with nil is legal
			if b.T == nilSlice || b.T.String() == nilSlice.String() {
				r = Eq(slArr(a.T), IntLit(0))
			} else {
				r = Eq(slArr(b.T), IntLit(0))
			}
		} else {
			at, bt := a.T, b.T
			if at == nil || bt == nil {
				return nil, fmt.Errorf("comparison of non-scalar values")
			}
			if at.Sort != bt.Sort {
				return nil, fmt.Errorf("comparison sort mismatch %s vs %s", at.Sort, bt.Sort)
			}
			r = Eq(at, bt)
		}
		if op == token.NEQ {
			r = Not(r)
		}
		return r, nil
	}
	if isBool(ta) {
		switch op {
		case token.AND, token.LAND:
			return And(a.T, b.T), nil
		case token.OR, token.LOR:
			return Or(a.T, b.T), nil
		}
	}
	if isFloat(ta) {
		rm := Lit("RNE", SRM)
		switch op {
		case token.ADD:
			return App("fp.add", a.T.Sort, rm, a.T, b.T), nil
		case token.SUB:
			return App("fp.sub", a.T.Sort, rm, a.T, b.T), nil
		case token.MUL:
			return App("fp.mul", a.T.Sort, rm, a.T, b.T), nil
		case token.QUO:
			return App("fp.div", a.T.Sort, rm, a.T, b.T), nil
		case token.LSS:
			return App("fp.lt", SBool, a.T, b.T), nil
		case token.LEQ:
			return App("fp.leq", SBool, a.T, b.T), nil
		case token.GTR:
			return App("fp.gt", SBool, a.T, b.T), nil
		case token.GEQ:
			return App("fp.geq", SBool, a.T, b.T), nil
		}
		return nil, fmt.Errorf("float op %s", op)
	}
	if isString(ta) {
		switch op {
		case token.ADD:
			return App("seq.++", SStr, a.T, b.T), nil
		case token.LSS, token.LEQ, token.GTR, token.GEQ:
			x.eng.reg.AddFun("str$lt", []string{SStr, SStr}, SBool)
			switch op {
			case token.LSS:
				return App("str$lt", SBool, a.T, b.T), nil
			case token.GTR:
				return App("str$lt", SBool, b.T, a.T), nil
			case token.LEQ:
				return Not(App("str$lt", SBool, b.T, a.T)), nil
			default:
				return Not(App("str$lt", SBool, a.T, b.T)), nil
			}
		}
		return nil, fmt.Errorf("string op %s", op)
	}
	ii, ok := intInfoOf(ta)
	if !ok {
		return nil, fmt.Errorf("binop %s on %s", op, ta)
	}
	if x.mode == "bv" {
		return x.binopBV(s, op, a, b, ii, tb, oname)
	}
	at, bt := a.T, b.T
	inRange := func(r *Term) *Term { return And(ILe(BigLit(ii.min()), r), ILe(r, BigLit(ii.max()))) }
	switch op {
	case token.LSS:
		return ILt(at, bt), nil
	case token.LEQ:
		return ILe(at, bt), nil
	case token.GTR:
		return ILt(bt, at), nil
	case token.GEQ:
		return ILe(bt, at), nil
	case token.ADD:
		r := IAdd(at, bt)
		if x.mode == "wrap" {
			return wrapInt(r, ii), nil
		}
		x.check(s, "overflow", oname("overflow"), inRange(r), "integer overflow on +")
		return r, nil
	case token.SUB:
		r := ISub(at, bt)
		if x.mode == "wrap" {
			return wrapInt(r, ii), nil
		}
		x.check(s, "overflow", oname("overflow"), inRange(r), "integer overflow on -")
		return r, nil
	case token.MUL:
		r := IMul(at, bt)
		if x.mode == "wrap" {
			return wrapInt(r, ii), nil
		}
		x.check(s, "overflow", oname("overflow"), inRange(r), "integer overflow on *")
		return r, nil
	case token.QUO, token.REM:
		x.check(s, "safety", oname("div0"), Not(Eq(bt, IntLit(0))), "integer divide by zero")
		var q, m *Term
		if !ii.signed {
			q = App("div", SInt, at, bt)
			m = App("mod", SInt, at, bt)
		} else {
			nonneg := ILe(IntLit(0), at)
			q = Ite(nonneg, App("div", SInt, at, bt), ISub(IntLit(0), App("div", SInt, ISub(IntLit(0), at), bt)))
			m = Ite(nonneg, App("mod", SInt, at, bt), ISub(IntLit(0), App("mod", SInt, ISub(IntLit(0), at), bt)))
			if op == token.QUO {
				// MinInt / -1 overflows
				if x.mode == "wrap" {
					q = wrapInt(q, ii)
				} else {
					x.check(s, "overflow", oname("overflow"), inRange(q), "integer overflow on /")
				}
			}
		}
		if op == token.QUO {
			return q, nil
		}
		return m, nil
	case token.SHL:
		bi := x.toInt(bt, tb)
		if k, ok := bi.intLitVal(); ok && k.Sign() >= 0 && k.Int64() < 64 {
			r := IMul(at, pow2(uint(k.Int64())))
			if !ii.signed {
				return App("mod", SInt, r, pow2(uint(ii.w))), nil
			}
			x.check(s, "overflow", oname("overflow"), inRange(r), "shift overflow")
			return r, nil
		}
		x.eng.reg.AddFun("int$shl", []string{SInt, SInt}, SInt)
		r := App("int$shl", SInt, at, bi)
		s.assume(inRange(r))
		return r, nil
	case token.SHR:
		bi := x.toInt(bt, tb)
		if k, ok := bi.intLitVal(); ok && k.Sign() >= 0 && k.Int64() < 64 {
			return App("div", SInt, at, pow2(uint(k.Int64()))), nil
		}
		x.eng.reg.AddFun("int$shr", []string{SInt, SInt}, SInt)
		r := App("int$shr", SInt, at, bi)
		s.assume(inRange(r))
		s.assume(Implies(ILe(IntLit(0), at), And(ILe(IntLit(0), r), ILe(r, at))))
		return r, nil
	case token.AND:
		// mask with 2^k-1
		if m, ok := bt.intLitVal(); ok {
			if k := maskBits(m); k >= 0 {
				return App("mod", SInt, at, pow2(uint(k))), nil
			}
		}
		if m, ok := at.intLitVal(); ok {
			if k := maskBits(m); k >= 0 {
				return App("mod", SInt, bt, pow2(uint(k))), nil
			}
		}
		x.eng.reg.AddFun("int$and", []string{SInt, SInt}, SInt)
		r := App("int$and", SInt, at, bt)
		s.assume(inRange(r))
		s.assume(Implies(And(ILe(IntLit(0), at), ILe(IntLit(0), bt)), And(ILe(IntLit(0), r), ILe(r, at), ILe(r, bt))))
		return r, nil
	case token.OR, token.XOR, token.AND_NOT:
		fn := map[token.Token]string{token.OR: "int$or", token.XOR: "int$xor", token.AND_NOT: "int$andnot"}[op]
		x.eng.reg.AddFun(fn, []string{SInt, SInt}, SInt)
		r := App(fn, SInt, at, bt)
		s.assume(inRange(r))
		if op == token.OR {
			s.assume(Implies(And(ILe(IntLit(0), at), ILe(IntLit(0), bt)), And(ILe(at, r), ILe(bt, r), ILe(r, IAdd(at, bt)))))
		}
		if op == token.AND_NOT {
			s.assume(Implies(And(ILe(IntLit(0), at), ILe(IntLit(0), bt)), And(ILe(IntLit(0), r), ILe(r, at))))
		}
		return r, nil
	}
	return nil, fmt.Errorf("int op %s", op)
}

// wrapInt: exact two's-complement wrap-around of a mathematical integer into the range of ii.
func wrapInt(r *Term, ii intInfo) *Term {
	m := pow2(uint(ii.w))
	if !ii.signed {
		return App("mod", SInt, r, m)
	}
	half := pow2(uint(ii.w - 1))
	return ISub(App("mod", SInt, IAdd(r, half), m), half)
}

func maskBits(m *big.Int) int {
	if m.Sign() <= 0 {
		return -1
	}
	p := new(big.Int).Add(m, big.NewInt(1))
	if new(big.Int).And(p, m).Sign() != 0 {
		return -1
	}
	return p.BitLen() - 1
}

func (x *Exec) binopBV(s *State, op token.Token, a, b Val, ii intInfo, tb types.Type, oname func(string) string) (*Term, error) {
	at, bt := a.T, b.T
	srt := at.Sort
	w := ii.w
	pick := func(sgn, uns string) string {
		if ii.signed {
			return sgn
		}
		return uns
	}
	// shift counts may have a different width
	if op == token.SHL || op == token.SHR {
		wb := bvWidth(bt.Sort)
		if wb < w {
			bt = App(fmt.Sprintf("(_ zero_extend %d)", w-wb), srt, bt)
		} else if wb > w {
			// clamp: if count >= w the result is all zeros / sign
			big := App("bvuge", SBool, bt, BVLit(big.NewInt(int64(w)), wb))
			low := App(fmt.Sprintf("(_ extract %d 0)", w-1), srt, bt)
			bt = Ite(big, BVLit(new(bigInt).SetInt64(int64(w)), w), low)
		}
	}
	switch op {
	case token.ADD:
		return App("bvadd", srt, at, bt), nil
	case token.SUB:
		return App("bvsub", srt, at, bt), nil
	case token.MUL:
		return App("bvmul", srt, at, bt), nil
	case token.QUO:
		x.check(s, "safety", oname("div0"), Not(Eq(bt, BVLit(big.NewInt(0), w))), "integer divide by zero")
		return App(pick("bvsdiv", "bvudiv"), srt, at, bt), nil
	case token.REM:
		x.check(s, "safety", oname("div0"), Not(Eq(bt, BVLit(big.NewInt(0), w))), "integer divide by zero")
		return App(pick("bvsrem", "bvurem"), srt, at, bt), nil
	case token.AND:
		return App("bvand", srt, at, bt), nil
	case token.OR:
		return App("bvor", srt, at, bt), nil
	case token.XOR:
		return App("bvxor", srt, at, bt), nil
	case token.AND_NOT:
		return App("bvand", srt, at, App("bvnot", srt, bt)), nil
	case token.SHL:
		return App("bvshl", srt, at, bt), nil
	case token.SHR:
		return App(pick("bvashr", "bvlshr"), srt, at, bt), nil
	case token.LSS:
		return App(pick("bvslt", "bvult"), SBool, at, bt), nil
	case token.LEQ:
		return App(pick("bvsle", "bvule"), SBool, at, bt), nil
	case token.GTR:
		return App(pick("bvsgt", "bvugt"), SBool, at, bt), nil
	case token.GEQ:
		return App(pick("bvsge", "bvuge"), SBool, at, bt), nil
	}
	return nil, fmt.Errorf("bv op %s", op)
}

type bigInt = big.Int

// convert implements Go conversions between basic types, and string/[]byte conversions.
func (x *Exec) convert(s *State, v Val, from, to types.Type, hint string) (*Term, error) {
	fi, fInt := intInfoOf(from)
	ti, tInt := intInfoOf(to)
	switch {
	case fInt && tInt:
		if x.mode == "bv" {
			switch {
			case ti.w == fi.w:
				return v.T, nil
			case ti.w < fi.w:
				return App(fmt.Sprintf("(_ extract %d 0)", ti.w-1), SBV(ti.w), v.T), nil
			case fi.signed:
				return App(fmt.Sprintf("(_ sign_extend %d)", ti.w-fi.w), SBV(ti.w), v.T), nil
			default:
				return App(fmt.Sprintf("(_ zero_extend %d)", ti.w-fi.w), SBV(ti.w), v.T), nil
			}
		}
		// exact wrap-around semantics on mathematical integers
		if fi.min().Cmp(ti.min()) >= 0 && fi.max().Cmp(ti.max()) <= 0 {
			return v.T, nil
		}
		m := pow2(uint(ti.w))
		if !ti.signed {
			return App("mod", SInt, v.T, m), nil
		}
		half := pow2(uint(ti.w - 1))
		return ISub(App("mod", SInt, IAdd(v.T, half), m), half), nil
	case fInt && isFloat(to):
		srt := x.sortOf(to)
		eb := "11 53"
		if srt == SFP32 {
			eb = "8 24"
		}
		if x.mode == "bv" {
			if fi.signed {
				return App("(_ to_fp "+eb+")", srt, Lit("RNE", SRM), v.T), nil
			}
			return App("(_ to_fp_unsigned "+eb+")", srt, Lit("RNE", SRM), v.T), nil
		}
		return App("(_ to_fp "+eb+")", srt, Lit("RNE", SRM), App("to_real", "Real", v.T)), nil
	case isFloat(from) && tInt:
		// out-of-range / NaN conversions are implementation-defined: the result is an arbitrary value
		if x.mode != "bv" {
			r := Var(x.eng.fresh("f2i$"+hint), SInt)
			s.assume(x.eng.typeInv(r, to, x.mode, nil))
			x.eng.warn("float->int conversion in int mode is havoc'd")
			return r, nil
		}
		op := "fp.to_ubv"
		if ti.signed {
			op = "fp.to_sbv"
		}
		conv := App(fmt.Sprintf("(_ %s %d)", op, ti.w), SBV(ti.w), Lit("RTZ", SRM), v.T)
		lo, hi := new(big.Float).SetInt(ti.min()), new(big.Float).SetInt(new(big.Int).Add(ti.max(), big.NewInt(1)))
		lof, _ := lo.Float64()
		hif, _ := hi.Float64()
		var inr *Term
		if ti.signed {
			inr = And(App("fp.geq", SBool, v.T, fpLit(lof)), App("fp.lt", SBool, v.T, fpLit(hif)))
		} else {
			inr = And(App("fp.gt", SBool, v.T, fpLit(-1.0)), App("fp.lt", SBool, v.T, fpLit(hif)))
		}
		arb := Var(x.eng.fresh("f2i$undef$"+hint), SBV(ti.w))
		return Ite(inr, conv, arb), nil
	case isFloat(from) && isFloat(to):
		if x.sortOf(from) == x.sortOf(to) {
			return v.T, nil
		}
		eb := "11 53"
		if x.sortOf(to) == SFP32 {
			eb = "8 24"
		}
		return App("(_ to_fp "+eb+")", x.sortOf(to), Lit("RNE", SRM), v.T), nil
	case isString(to):
		if sl, ok := from.Underlying().(*types.Slice); ok {
			// string(bytes): fresh sequence linked element-wise
			r := Var(x.eng.fresh("str$"+hint), SStr)
			s.assume(Eq(App("seq.len", SInt, r), slLen(v.T)))
			h := x.heapGet(s, x.elemKey(sl.Elem()), SArr(SInt, SArr(SInt, x.sortOf(sl.Elem()))))
			inner := x.name(s, "bk$"+hint, Select(h, slArr(v.T)))
			i := Var("i$"+hint, SInt)
			s.assume(Forall([]*Term{i}, Implies(And(ILe(IntLit(0), i), ILt(i, slLen(v.T))),
				Eq(App("seq.nth", SInt, r, i), Select(inner, IAdd(slOff(v.T), i)))),
				[]*Term{App("seq.nth", SInt, r, i)}))
			if x.sortOf(sl.Elem()) == SInt {
				// the same abstraction the contracts use for str(bytes): a function of (backing array, offset, length)
				x.eng.reg.AddFun("seq$of", []string{SArr(SInt, SInt), SInt, SInt}, SStr)
				s.assume(Eq(r, App("seq$of", SStr, inner, slOff(v.T), slLen(v.T))))
			}
			return r, nil
		}
		if fInt {
			r := Var(x.eng.fresh("str$"+hint), SStr)
			return r, nil
		}
	case isString(from):
		if sl, ok := to.Underlying().(*types.Slice); ok {
			ref := x.allocRef(s, "b$"+hint)
			key := x.elemKey(sl.Elem())
			es := x.sortOf(sl.Elem())
			h := x.heapGet(s, key, SArr(SInt, SArr(SInt, es)))
			inner := Var(x.eng.fresh("bk$"+hint), SArr(SInt, es))
			n := x.name(s, "n$"+hint, App("seq.len", SInt, v.T))
			i := Var("i$"+hint, SInt)
			if es == SInt {
				s.assume(Forall([]*Term{i}, Implies(And(ILe(IntLit(0), i), ILt(i, n)),
					Eq(Select(inner, i), App("seq.nth", SInt, v.T, i))),
					[]*Term{Select(inner, i)}))
			}
			x.heapSet(s, key, Store(h, ref, inner))
			return mkSlice(ref, IntLit(0), n, n), nil
		}
	}
	// identical underlying sorts (named types etc.)
	if x.sortOf(from) == x.sortOf(to) {
		return v.T, nil
	}
	return nil, fmt.Errorf("unsupported conversion %s -> %s", from, to)
}

func (x *Exec) makeIface(s *State, v Val, t types.Type) (*Term, error) {
	if _, isI := t.Underlying().(*types.Interface); isI {
		return v.T, nil
	}
	tag := IntLit(int64(x.eng.tagOf(t)))
	if isPointerLike(t) {
		if v.T == nil {
			return nil, fmt.Errorf("interior pointer stored in interface")
		}
		return mkIface(tag, v.T), nil
	}
	box, unbox, _ := x.eng.boxFuns(t, x.mode)
	bx := App(box, SInt, v.T)
	s.assume(Eq(App(unbox, v.T.Sort, bx), v.T))
	s.assume(ILt(IntLit(0), bx))
	return mkIface(tag, bx), nil
}

func (x *Exec) typeAssert(s *State, fr *Frame, in *ssa.TypeAssert, oname func(string) string) error {
	v, err := x.lookupVal(s, fr, in.X)
	if err != nil {
		return err
	}
	var ok, res *Term
	if _, isI := in.AssertedType.Underlying().(*types.Interface); isI {
		res = v.T
		if it := in.AssertedType.Underlying().(*types.Interface); it.NumMethods() == 0 {
			ok = Not(Eq(ifTag(v.T), IntLit(0)))
		} else if x.eng.closedIface(in.X.Type()) || x.eng.closedIface(in.AssertedType) {
			var alts []*Term
			cands := x.eng.implementers(in.AssertedType)
			for _, c := range cands {
				alts = append(alts, Eq(ifTag(v.T), IntLit(int64(x.eng.tagOf(c)))))
			}
			ok = Or(alts...)
		} else {
			okv := Var(x.eng.fresh("asrt$"+in.Name()), SBool)
			s.assume(Implies(okv, Not(Eq(ifTag(v.T), IntLit(0)))))
			ok = okv
		}
	} else {
		ok = Eq(ifTag(v.T), IntLit(int64(x.eng.tagOf(in.AssertedType))))
		if isPointerLike(in.AssertedType) {
			res = ifVal(v.T)
		} else {
			box, unbox, srt := x.eng.boxFuns(in.AssertedType, x.mode)
			res = App(unbox, srt, ifVal(v.T))
			// the payload of a value of dynamic type T is the box of some T value
			s.assume(Implies(ok, Eq(App(box, SInt, res), ifVal(v.T))))
		}
	}
	if in.CommaOk {
		okn := x.name(s, "v$"+in.Name()+"ok", ok)
		rv := Ite(okn, res, x.eng.zeroOf(in.AssertedType, x.mode))
		rn := x.name(s, "v$"+in.Name(), rv)
		s.assume(Implies(okn, x.eng.typeInv(rn, in.AssertedType, x.mode, s.alloc)))
		x.assumeInv(s, rn, in.AssertedType, okn)
		fr.vals[in] = Val{Tup: []Val{tv(rn, in.AssertedType), tv(okn, types.Typ[types.Bool])}, GoT: in.Type()}
		return nil
	}
	x.check(s, "safety", oname("assert"), ok, "type assertion may fail")
	rn := x.name(s, "v$"+in.Name(), res)
	x.assumeTyped(s, rn, in.AssertedType)
	fr.vals[in] = tv(rn, in.Type())
	return nil
}

func (x *Exec) sliceOp(s *State, fr *Frame, in *ssa.Slice, oname func(string) string) error {
	a, err := x.lookupVal(s, fr, in.X)
	if err != nil {
		return err
	}
	getIdx := func(v ssa.Value) (*Term, error) {
		if v == nil {
			return nil, nil
		}
		iv, err := x.lookupVal(s, fr, v)
		if err != nil {
			return nil, err
		}
		return x.toInt(iv.T, v.Type()), nil
	}
	lo, err := getIdx(in.Low)
	if err != nil {
		return err
	}
	hi, err := getIdx(in.High)
	if err != nil {
		return err
	}
	mx, err := getIdx(in.Max)
	if err != nil {
		return err
	}
	if lo == nil {
		lo = IntLit(0)
	}
	switch u := in.X.Type().Underlying().(type) {
	case *types.Basic: // string
		ln := App("seq.len", SInt, a.T)
		if hi == nil {
			hi = ln
		}
		x.check(s, "safety", oname("slice"), And(ILe(IntLit(0), lo), ILe(lo, hi), ILe(hi, ln)), "slice bounds out of range")
		x.bind(s, fr, in, tv(App("seq.extract", SStr, a.T, lo, ISub(hi, lo)), in.Type()))
		return nil
	case *types.Slice:
		if hi == nil {
			hi = slLen(a.T)
		}
		cp := slCap(a.T)
		bound := cp
		if mx != nil {
			bound = mx
			x.check(s, "safety", oname("slice"), And(ILe(IntLit(0), lo), ILe(lo, hi), ILe(hi, mx), ILe(mx, cp)), "slice bounds out of range")
		} else {
			x.check(s, "safety", oname("slice"), And(ILe(IntLit(0), lo), ILe(lo, hi), ILe(hi, cp)), "slice bounds out of range")
		}
		x.bind(s, fr, in, tv(mkSlice(slArr(a.T), IAdd(slOff(a.T), lo), ISub(hi, lo), ISub(bound, lo)), in.Type()))
		return nil
	case *types.Pointer:
		at := u.Elem().Underlying().(*types.Array)
		n := IntLit(at.Len())
		if hi == nil {
			hi = n
		}
		if a.LV != nil && a.LV.Kind != lvCell {
			return fmt.Errorf("slicing an array embedded in another object")
		}
		ref := a.T
		if a.LV != nil {
			ref = a.LV.Ref
		} else {
			x.check(s, "safety", oname("nil"), Not(Eq(ref, IntLit(0))), "nil dereference (slice of array pointer)")
		}
		bound := n
		if mx != nil {
			bound = mx
		}
		x.check(s, "safety", oname("slice"), And(ILe(IntLit(0), lo), ILe(lo, hi), ILe(hi, bound), ILe(bound, n)), "slice bounds out of range")
		x.bind(s, fr, in, tv(mkSlice(ref, lo, ISub(hi, lo), ISub(bound, lo)), in.Type()))
		return nil
	}
	return fmt.Errorf("slice of %s", in.X.Type())
}

// ---------- maps ----------

func (x *Exec) mapKeys(mt *types.Map) (string, string, string) {
	k := x.eng.typeKey(mt.Key()) + "$" + x.eng.typeKey(mt.Elem())
	return "MH$" + k, "MV$" + k, "ML$" + k
}

func (x *Exec) mapParts(s *State, mt *types.Map, m *Term) (has, val, ln *Term) {
	hk, vk, lk := x.mapKeys(mt)
	ks := x.sortOf(mt.Key())
	vs := x.sortOf(mt.Elem())
	has = Select(x.heapGet(s, hk, SArr(SInt, SArr(ks, SBool))), m)
	val = Select(x.heapGet(s, vk, SArr(SInt, SArr(ks, vs))), m)
	ln = Select(x.heapGet(s, lk, SArr(SInt, SInt)), m)
	return
}

func (x *Exec) lookup(s *State, fr *Frame, in *ssa.Lookup, oname func(string) string) error {
	m, err := x.lookupVal(s, fr, in.X)
	if err != nil {
		return err
	}
	k, err := x.lookupVal(s, fr, in.Index)
	if err != nil {
		return err
	}
	if isString(in.X.Type()) {
		it := x.toInt(k.T, in.Index.Type())
		x.check(s, "safety", oname("index"), And(ILe(IntLit(0), it), ILt(it, App("seq.len", SInt, m.T))), "index out of range")
		r := x.name(s, "v$"+in.Name(), App("seq.nth", SInt, m.T, it))
		s.assume(And(ILe(IntLit(0), r), ILe(r, IntLit(255))))
		fr.vals[in] = tv(x.fromInt(r, in.Type()), in.Type())
		return nil
	}
	mt := in.X.Type().Underlying().(*types.Map)
	has, val, _ := x.mapParts(s, mt, m.T)
	h := And(Not(Eq(m.T, IntLit(0))), Select(has, k.T))
	hn := x.name(s, "v$"+in.Name()+"ok", h)
	v := x.name(s, "v$"+in.Name(), Ite(hn, Select(val, k.T), x.eng.zeroOf(mt.Elem(), x.mode)))
	x.assumeTyped(s, v, mt.Elem())
	if in.CommaOk {
		fr.vals[in] = Val{Tup: []Val{tv(v, mt.Elem()), tv(hn, types.Typ[types.Bool])}, GoT: in.Type()}
	} else {
		fr.vals[in] = tv(v, in.Type())
	}
	return nil
}

func (x *Exec) mapUpdate(s *State, fr *Frame, in *ssa.MapUpdate, oname func(string) string) error {
	m, err := x.lookupVal(s, fr, in.Map)
	if err != nil {
		return err
	}
	k, err := x.lookupVal(s, fr, in.Key)
	if err != nil {
		return err
	}
	v, err := x.lookupVal(s, fr, in.Value)
	if err != nil {
		return err
	}
	if v.T == nil {
		return fmt.Errorf("map update with non-scalar value")
	}
	mt := in.Map.Type().Underlying().(*types.Map)
	x.check(s, "safety", oname("nilmap"), Not(Eq(m.T, IntLit(0))), "assignment to entry in nil map")
	x.mapStore(s, mt, m.T, k.T, v.T, true)
	return nil
}

func (x *Exec) mapStore(s *State, mt *types.Map, m, k, v *Term, present bool) {
	hk, vk, lk := x.mapKeys(mt)
	ks := x.sortOf(mt.Key())
	vs := x.sortOf(mt.Elem())
	H := x.heapGet(s, hk, SArr(SInt, SArr(ks, SBool)))
	V := x.heapGet(s, vk, SArr(SInt, SArr(ks, vs)))
	L := x.heapGet(s, lk, SArr(SInt, SInt))
	had := Select(Select(H, m), k)
	if present {
		x.heapSet(s, lk, Store(L, m, IAdd(Select(L, m), Ite(had, IntLit(0), IntLit(1)))))
		x.heapSet(s, hk, Store(H, m, Store(Select(H, m), k, TTrue)))
		x.heapSet(s, vk, Store(V, m, Store(Select(V, m), k, v)))
		x.noteWrite(s, vk, m)
	} else {
		x.heapSet(s, lk, Store(L, m, ISub(Select(L, m), Ite(had, IntLit(1), IntLit(0)))))
		x.heapSet(s, hk, Store(H, m, Store(Select(H, m), k, TFalse)))
	}
	x.noteWrite(s, hk, m)
}

func (x *Exec) next(s *State, fr *Frame, in *ssa.Next) error {
	it, err := x.lookupVal(s, fr, in.Iter)
	if err != nil {
		return err
	}
	ok := Var(x.eng.fresh("next$ok$"+in.Name()), SBool)
	if in.IsString {
		idx := Var(x.eng.fresh("next$i$"+in.Name()), SInt)
		r := Var(x.eng.fresh("next$r$"+in.Name()), SInt)
		s.assume(Implies(ok, And(ILe(IntLit(0), idx), ILt(idx, App("seq.len", SInt, it.T)))))
		s.assume(And(ILe(IntLit(0), r), ILe(r, IntLit(0x10ffff))))
		fr.vals[in] = Val{Tup: []Val{tv(ok, types.Typ[types.Bool]), tv(x.fromInt(idx, types.Typ[types.Int]), types.Typ[types.Int]), tv(x.fromInt(r, types.Typ[types.Rune]), types.Typ[types.Rune])}}
		return nil
	}
	mt := it.GoT.Underlying().(*types.Map)
	has, val, ln := x.mapParts(s, mt, it.T)
	k := Var(x.eng.fresh("next$k$"+in.Name()), x.sortOf(mt.Key()))
	x.assumeTyped(s, k, mt.Key())
	s.assume(Implies(ok, And(Not(Eq(it.T, IntLit(0))), Select(has, k), ILt(IntLit(0), ln))))
	if rg, isR := in.Iter.(*ssa.Range); isR {
		if cnt, hasC := fr.vars["iter$"+rg.Name()]; hasC {
			// the iteration visits each key once: while the map is not modified inside the loop,
			// Next succeeds exactly len(m) times
			stable := true
			if li := x.loopsOf(fr.fn)[in.Block()]; li != nil {
				hk, vk, lk := x.mapKeys(mt)
				keys, all := x.modifiedHeaps(fr.fn, li.body)
				if all || keys[hk] || keys[vk] || keys[lk] {
					stable = false
				}
			}
			if stable {
				s.assume(Eq(ok, ILt(cnt.T, fr.vars["iterlen$"+rg.Name()].T)))
			}
			nc := x.name(s, "iter$"+rg.Name(), Ite(ok, IAdd(cnt.T, IntLit(1)), cnt.T))
			fr.vars["iter$"+rg.Name()] = tv(nc, types.Typ[types.Int])
			if li := x.loopsOf(fr.fn)[in.Block()]; li != nil {
				fr.vars[fmt.Sprintf("iter%d", li.ordinal)] = tv(nc, types.Typ[types.Int])
			}
		}
	}
	v := x.name(s, "next$v$"+in.Name(), Select(val, k))
	x.assumeTyped(s, v, mt.Elem())
	fr.vals[in] = Val{Tup: []Val{tv(ok, types.Typ[types.Bool]), tv(k, mt.Key()), tv(v, mt.Elem())}}
	return nil
}

// ---------- defers ----------

func (x *Exec) runDefers(s *State, k func(*State)) {
	fr := s.top()
	if len(fr.deferSt) == 0 {
		k(s)
		return
	}
	d := fr.deferSt[len(fr.deferSt)-1]
	fr.deferSt = fr.deferSt[:len(fr.deferSt)-1]
	x.doCallWith(s, d.pos, d.call, d.args, d.fn, func(s2 *State, _ Val) {
		x.runDefers(s2, k)
	})
}

// storesTo reports whether fn contains a store to (or takes a derived address of) value v.
func storesTo(fn *ssa.Function, v ssa.Value) bool {
	for _, b := range fn.Blocks {
		for _, in := range b.Instrs {
			if st, ok := in.(*ssa.Store); ok && st.Addr == v {
				return true
			}
			if c, ok := in.(ssa.CallInstruction); ok {
				for _, a := range c.Common().Args {
					if a == v {
						return true
					}
				}
			}
			if mc, ok := in.(*ssa.MakeClosure); ok {
				for _, bnd := range mc.Bindings {
					if bnd == v {
						return true
					}
				}
			}
		}
	}
	return false
}

// spareLoopSpec hands out the loop contracts of the function under verification that refer to
// loops it does not contain, one per inlined-helper loop header, in ordinal order.
func (x *Exec) spareLoopSpec(header *ssa.BasicBlock) *LoopSpec {
	if x.fc == nil || len(x.fc.Loops) == 0 {
		return nil
	}
	if x.spareOf == nil {
		x.spareOf = map[*ssa.BasicBlock]int{}
		x.spareUsed = map[int]bool{}
	}
	if n, ok := x.spareOf[header]; ok {
		return x.fc.Loops[n]
	}
	have := map[int]bool{}
	for _, li := range x.loopsOf(x.fn) {
		have[li.ordinal] = true
	}
	var spare []int
	for n := range x.fc.Loops {
		if !have[n] && !x.spareUsed[n] {
			spare = append(spare, n)
		}
	}
	if len(spare) == 0 {
		return nil
	}
	sort.Ints(spare)
	x.spareOf[header] = spare[0]
	x.spareUsed[spare[0]] = true
	return x.fc.Loops[spare[0]]
}
