package main

// Symbolic state: path condition, versioned heap components, frames, l-values.

import (
	"fmt"
	"go/types"

	"golang.org/x/tools/go/ssa"
)

type Val struct {
	T   *Term
	Tup []Val
	LV  *LValue
	GoT types.Type // may be nil for spec-only values
	// closure captured at MakeClosure
	Fn       *ssa.Function
	Bindings []Val
}

func tv(t *Term, gt types.Type) Val { return Val{T: t, GoT: gt} }

const (
	lvCell    = iota // pointer to a non-struct cell: Ref, Typ = content type
	lvField          // field of struct object at Ref (Base==nil) or of struct value at Base
	lvElem           // slice element: Slice, Idx
	lvArrElem        // element of array value located at Base
	lvGlobal
	lvOpaque // field of an opaque (non-repository) struct: loads are arbitrary, stores ignored
)

type LValue struct {
	Kind   int
	Ref    *Term
	Base   *LValue
	Typ    types.Type // type of the content of this location
	STyp   types.Type // struct type (lvField)
	ST     *types.Struct
	Field  int
	Slice  *Term
	Idx    *Term
	Global *ssa.Global
}

type assertNode struct {
	t    *Term
	prev *assertNode
	n    int
}

type Frame struct {
	fn      *ssa.Function
	vals    map[ssa.Value]Val
	vars    map[string]Val
	defers  []*ssa.Defer
	deferSt []deferred
	visited map[*ssa.BasicBlock]bool // loop headers already cut on this path
	depth   int
	params  map[string]Val
}

type deferred struct {
	call *ssa.CallCommon
	args []Val
	fn   Val
	pos  ssa.Instruction
}

type State struct {
	asserts *assertNode
	heap    map[string]*Term
	alloc   *Term
	locks   map[string]string // lock id text -> "R"/"W"
	lockT   map[string]*Term
	trace   []string
	steps   int
	ghost   map[string]*Term
	frames  []*Frame
	fresh   []freshObj
	hbound  map[string]*Term // heap component -> allocation watermark at its last modification
	spawned map[string]string // lock id -> goroutine (spawned earlier on this path) that certainly acquires it
}

func (s *State) top() *Frame { return s.frames[len(s.frames)-1] }

func (s *State) clone() *State {
	n := &State{asserts: s.asserts, alloc: s.alloc, steps: s.steps}
	for _, f := range s.frames {
		n.frames = append(n.frames, f.clone())
	}
	n.heap = make(map[string]*Term, len(s.heap))
	for k, v := range s.heap {
		n.heap[k] = v
	}
	n.locks = make(map[string]string, len(s.locks))
	for k, v := range s.locks {
		n.locks[k] = v
	}
	n.ghost = make(map[string]*Term, len(s.ghost))
	for k, v := range s.ghost {
		n.ghost[k] = v
	}
	if len(s.spawned) > 0 {
		n.spawned = make(map[string]string, len(s.spawned))
		for k, v := range s.spawned {
			n.spawned[k] = v
		}
	}
	n.trace = append([]string{}, s.trace...)
	n.fresh = append([]freshObj{}, s.fresh...)
	n.hbound = make(map[string]*Term, len(s.hbound))
	for k, v := range s.hbound {
		n.hbound[k] = v
	}
	return n
}

func (f *Frame) clone() *Frame {
	n := &Frame{fn: f.fn, depth: f.depth, params: f.params}
	n.vals = make(map[ssa.Value]Val, len(f.vals))
	for k, v := range f.vals {
		n.vals[k] = v
	}
	n.vars = make(map[string]Val, len(f.vars))
	for k, v := range f.vars {
		n.vars[k] = v
	}
	n.visited = make(map[*ssa.BasicBlock]bool, len(f.visited))
	for k, v := range f.visited {
		n.visited[k] = v
	}
	n.deferSt = append([]deferred{}, f.deferSt...)
	return n
}

func (s *State) assume(t *Term) {
	if t == nil || t.isTrue() {
		return
	}
	n := 1
	if s.asserts != nil {
		n = s.asserts.n + 1
	}
	s.asserts = &assertNode{t: t, prev: s.asserts, n: n}
}

func (s *State) assertList() []*Term {
	var out []*Term
	for a := s.asserts; a != nil; a = a.prev {
		out = append(out, a.t)
	}
	// reverse
	for i, j := 0, len(out)-1; i < j; i, j = i+1, j-1 {
		out[i], out[j] = out[j], out[i]
	}
	return out
}

// ---- heap components ----

func (x *Exec) heapGet(s *State, key, sort string) *Term {
	if h, ok := s.heap[key]; ok {
		return h
	}
	h := Var(key+"!0", sort)
	s.heap[key] = h
	x.heapSorts[key] = sort
	return h
}

// heapSet installs a new version of a heap component, defined by term t.
func (x *Exec) heapSet(s *State, key string, t *Term) {
	x.heapSorts[key] = t.Sort
	s.hbound[key] = s.alloc
	if t.Kind == kVar {
		s.heap[key] = t
		return
	}
	v := Var(x.eng.fresh(key), t.Sort)
	s.assume(Eq(v, t))
	defOf[v.Op] = t
	s.heap[key] = v
}

func (x *Exec) heapHavoc(s *State, key string) {
	sort, ok := x.heapSorts[key]
	if !ok {
		return
	}
	s.heap[key] = Var(x.eng.fresh(key), sort)
	s.hbound[key] = nil // bounded by the watermark current at load time
}

func (x *Exec) fieldKey(styp types.Type, st *types.Struct, i int) string {
	return "F$" + x.eng.structName(styp) + "$" + fieldName(st.Field(i), i)
}
func (x *Exec) cellKey(t types.Type) string { return "C$" + x.eng.typeKey(t) }
func (x *Exec) elemKey(t types.Type) string { return "E$" + x.eng.typeKey(t) }
func (x *Exec) globalKey(g *ssa.Global) string {
	return "G$" + cleanName(g.Pkg.Pkg.Name()+"."+g.Name())
}

func (x *Exec) sortOf(t types.Type) string { return x.eng.sortOf(t, x.mode) }

// name a value: introduce a constant equal to t (keeps queries small and models readable)
func (x *Exec) name(s *State, prefix string, t *Term) *Term {
	if t.Kind == kVar || t.Kind == kLit {
		return t
	}
	if t.Kind == kApp && (t.Op == "mk-slice" || t.Op == "mk-iface") {
		allSimple := true
		for _, a := range t.Args {
			if a.Kind == kApp {
				allSimple = false
			}
		}
		if allSimple {
			return t
		}
	}
	v := Var(x.eng.fresh(prefix), t.Sort)
	s.assume(Eq(v, t))
	defOf[v.Op] = t
	return v
}

func structOf(t types.Type) (*types.Struct, bool) {
	st, ok := t.Underlying().(*types.Struct)
	return st, ok
}

// load reads the content of a location.
// boundOf: every reference stored in heap component key is below this watermark.
func (x *Exec) boundOf(s *State, key string) *Term {
	if b, ok := s.hbound[key]; ok {
		if b == nil {
			return s.alloc
		}
		return b
	}
	if x.entryAlloc != nil {
		return x.entryAlloc // untouched since function entry
	}
	return s.alloc
}

func (x *Exec) load(s *State, lv *LValue) (*Term, error) {
	x.loadBound = nil
	switch lv.Kind {
	case lvOpaque:
		v := Var(x.eng.fresh("opq"), x.sortOf(lv.Typ))
		s.assume(x.eng.typeInv(v, lv.Typ, x.mode, s.alloc))
		return v, nil
	case lvGlobal:
		return x.heapGet(s, x.globalKey(lv.Global), x.sortOf(lv.Typ)), nil
	case lvCell:
		if st, ok := structOf(lv.Typ); ok && !x.eng.opaqueStruct(lv.Typ) {
			fs := make([]*Term, st.NumFields())
			for i := range fs {
				h := x.heapGet(s, x.fieldKey(lv.Typ, st, i), SArr(SInt, x.sortOf(st.Field(i).Type())))
				fs[i] = Select(h, lv.Ref)
			}
			return x.eng.structVal(lv.Typ, st, x.mode, fs), nil
		}
		if at, ok := lv.Typ.Underlying().(*types.Array); ok {
			h := x.heapGet(s, x.elemKey(at.Elem()), SArr(SInt, SArr(SInt, x.sortOf(at.Elem()))))
			return Select(h, lv.Ref), nil
		}
		h := x.heapGet(s, x.cellKey(lv.Typ), SArr(SInt, x.sortOf(lv.Typ)))
		x.loadBound = x.boundOf(s, x.cellKey(lv.Typ))
		return Select(h, lv.Ref), nil
	case lvField:
		if lv.Base == nil {
			h := x.heapGet(s, x.fieldKey(lv.STyp, lv.ST, lv.Field), SArr(SInt, x.sortOf(lv.Typ)))
			x.loadBound = x.boundOf(s, x.fieldKey(lv.STyp, lv.ST, lv.Field))
			if !x.inSpec {
				x.checkGuard(s, lv.STyp, lv.ST, lv.Field, lv.Ref, false, x.curSite)
			}
			return Select(h, lv.Ref), nil
		}
		b, err := x.load(s, lv.Base)
		if err != nil {
			return nil, err
		}
		return x.eng.structField(lv.STyp, lv.ST, x.mode, b, lv.Field), nil
	case lvElem:
		h := x.heapGet(s, x.elemKey(lv.Typ), SArr(SInt, SArr(SInt, x.sortOf(lv.Typ))))
		x.loadBound = x.boundOf(s, x.elemKey(lv.Typ))
		return x.eng.Elem(Select(h, slArr(lv.Slice)), slOff(lv.Slice), lv.Idx), nil
	case lvArrElem:
		b, err := x.load(s, lv.Base)
		if err != nil {
			return nil, err
		}
		return Select(b, lv.Idx), nil
	}
	return nil, fmt.Errorf("load: bad lvalue")
}

// store writes v into a location; reports the heap component and object written (for frames).
func (x *Exec) store(s *State, lv *LValue, v *Term) error {
	switch lv.Kind {
	case lvOpaque:
		return nil
	case lvGlobal:
		x.heapSet(s, x.globalKey(lv.Global), v)
		x.noteWrite(s, x.globalKey(lv.Global), nil)
		return nil
	case lvCell:
		if st, ok := structOf(lv.Typ); ok && !x.eng.opaqueStruct(lv.Typ) {
			for i := 0; i < st.NumFields(); i++ {
				key := x.fieldKey(lv.Typ, st, i)
				h := x.heapGet(s, key, SArr(SInt, x.sortOf(st.Field(i).Type())))
				x.heapSet(s, key, Store(h, lv.Ref, x.eng.structField(lv.Typ, st, x.mode, v, i)))
				x.noteWrite(s, key, lv.Ref)
			}
			return nil
		}
		if at, ok := lv.Typ.Underlying().(*types.Array); ok {
			key := x.elemKey(at.Elem())
			h := x.heapGet(s, key, SArr(SInt, SArr(SInt, x.sortOf(at.Elem()))))
			x.heapSet(s, key, Store(h, lv.Ref, v))
			x.noteWrite(s, key, lv.Ref)
			return nil
		}
		key := x.cellKey(lv.Typ)
		h := x.heapGet(s, key, SArr(SInt, x.sortOf(lv.Typ)))
		x.heapSet(s, key, Store(h, lv.Ref, v))
		x.noteWrite(s, key, lv.Ref)
		return nil
	case lvField:
		if lv.Base == nil {
			key := x.fieldKey(lv.STyp, lv.ST, lv.Field)
			h := x.heapGet(s, key, SArr(SInt, x.sortOf(lv.Typ)))
			x.heapSet(s, key, Store(h, lv.Ref, v))
			x.noteWrite(s, key, lv.Ref)
			x.checkInvAfterStore(s, lv.STyp, lv.Ref, x.curSite)
			x.checkGuard(s, lv.STyp, lv.ST, lv.Field, lv.Ref, true, x.curSite)
			return nil
		}
		b, err := x.load(s, lv.Base)
		if err != nil {
			return err
		}
		return x.store(s, lv.Base, x.eng.structUpdate(lv.STyp, lv.ST, x.mode, b, lv.Field, v))
	case lvElem:
		key := x.elemKey(lv.Typ)
		h := x.heapGet(s, key, SArr(SInt, SArr(SInt, x.sortOf(lv.Typ))))
		arr := slArr(lv.Slice)
		inner := Select(h, arr)
		x.heapSet(s, key, Store(h, arr, Store(inner, IAdd(slOff(lv.Slice), lv.Idx), v)))
		x.noteWrite(s, key, arr)
		return nil
	case lvArrElem:
		b, err := x.load(s, lv.Base)
		if err != nil {
			return err
		}
		return x.store(s, lv.Base, Store(b, lv.Idx, v))
	}
	return fmt.Errorf("store: bad lvalue")
}

// lvalueOf converts a pointer value into a location.
func (x *Exec) lvalueOf(p Val, elem types.Type) *LValue {
	if p.LV != nil {
		return p.LV
	}
	return &LValue{Kind: lvCell, Ref: p.T, Typ: elem}
}
