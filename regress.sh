#!/bin/bash
# Runs every claimed check once on the current tree; prints one line per property.
cd "$(dirname "$0")"
fail=0
for p in $(python3 -c "import json; print(' '.join(c['property_id'] for c in json.load(open('MANIFEST.json'))['checks']))"); do
  out=$(bin/gocv check $p 2>&1); rc=$?
  echo "$out" | grep -E "^(property|VIOLATION)" | cut -c1-200
  [ $rc -ne 0 ] && fail=1
done
bin/gocv witnesses | grep -v ": quiet$"; [ ${PIPESTATUS:-0} -ne 0 ] && fail=1
exit $fail
